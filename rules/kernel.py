"""KERNEL: symbolic evaluation of element-loop closures into polynomial normal forms.

An expression over loop inputs is reduced to a polynomial (dict: sorted tuple of atoms -> Fraction coefficient) after translating
SIMD intrinsics to scalar algebra (mul_f64s(a,b) = a*b, mul_add(_e)_f64s(a,b,c) = a*b+c, splat_f64s(x) = x, ...). Two lanes / two
loops 'agree' when their outputs have equal normal forms after renaming this lane's inputs to lane-free names. Rounding is ignored
(a*b+c and fma(a,b,c) are the same polynomial): the rule is about which elements are combined how, not about ulps.
"""
from fractions import Fraction

from . import common as K
from .facts import hir_walk

SIMD_BIN = {"mul_f64s": "*", "add_f64s": "+", "sub_f64s": "-", "div_f64s": "/", "min_f64s": "min", "max_f64s": "max"}
SIMD_FMA = ("mul_add_f64s", "mul_add_e_f64s")
SIMD_NEG_FMA = {"neg_mul_add_f64s": (-1, 1), "neg_mul_add_e_f64s": (-1, 1), "mul_sub_f64s": (1, -1), "mul_sub_e_f64s": (1, -1)}


# ---------------- polynomials ----------------
def pconst(c):
    c = Fraction(c)
    return {(): c} if c != 0 else {}


def patom(a):
    return {(a,): Fraction(1)}


def padd(p, q, s=1):
    r = dict(p)
    for m, c in q.items():
        v = r.get(m, 0) + s * c
        if v == 0:
            r.pop(m, None)
        else:
            r[m] = v
    return r


def pmul(p, q):
    r = {}
    for m1, c1 in p.items():
        for m2, c2 in q.items():
            m = tuple(sorted(m1 + m2, key=repr))
            v = r.get(m, 0) + c1 * c2
            if v == 0:
                r.pop(m, None)
            else:
                r[m] = v
    return r


def pneg(p):
    return {m: -c for m, c in p.items()}


def pkey(p):
    return tuple(sorted(((m, str(c)) for m, c in p.items()), key=repr))


def pshow(p):
    if not p:
        return "0"
    out = []
    for m, c in sorted(p.items(), key=lambda x: repr(x[0])):
        fs = "*".join(ashow(a) for a in m)
        if not m:
            out.append(str(c))
        elif c == 1:
            out.append(fs)
        elif c == -1:
            out.append("-" + fs)
        else:
            out.append("%s*%s" % (c, fs))
    return " + ".join(out)


def ashow(a):
    if a[0] == "in":
        return "in%d%s" % (a[1], "" if len(a) < 3 or a[2] is None else "[%s]" % a[2])
    if a[0] == "acc":
        return "acc(%s)" % a[1]
    if a[0] == "self":
        return "ACC"
    if a[0] == "var":
        return str(a[1])
    if a[0] == "call":
        return "%s(%s)" % (a[1], ", ".join(pshow(dict(x)) if isinstance(x, tuple) and x and isinstance(x[0], tuple) else str(x) for x in a[2]))
    return str(a)


def patoms(p):
    s = set()
    for m in p:
        for a in m:
            s.add(a)
            if a[0] == "call":
                for x in a[2]:
                    if isinstance(x, tuple):
                        try:
                            s |= patoms(dict(x))
                        except (TypeError, ValueError):
                            pass
    return s


def prename(p, f):
    """Rename atoms by f (atom -> atom), recursively inside call arguments."""
    r = {}
    for m, c in p.items():
        nm = []
        for a in m:
            if a[0] == "call":
                args = tuple(_freeze(prename(dict(x), f)) if _is_frozen_poly(x) else x for x in a[2])
                a2 = ("call", a[1], args)
            else:
                a2 = f(a)
            nm.append(a2)
        nm = tuple(sorted(nm, key=repr))
        v = r.get(nm, 0) + c
        if v == 0:
            r.pop(nm, None)
        else:
            r[nm] = v
    return r


def psubst(p, sub):
    """Substitute atoms by polynomials (sub: atom -> poly), recursively inside call arguments."""
    r = {}
    for m, c in p.items():
        term = {(): c}
        for a in m:
            if a in sub:
                f = sub[a]
            elif a[0] == "call":
                args = tuple(_freeze(psubst(dict(x), sub)) if _is_frozen_poly(x) else x for x in a[2])
                f = patom(("call", a[1], args))
            else:
                f = patom(a)
            term = pmul(term, f)
        r = padd(r, term)
    return r


def _freeze(p):
    return tuple(sorted(p.items(), key=repr))


def _is_frozen_poly(x):
    return isinstance(x, tuple) and (not x or (isinstance(x[0], tuple) and len(x[0]) == 2 and isinstance(x[0][0], tuple)))


def psub_float(a, b):
    """a - b for floating-point element values: `x - x` is not 0 for an infinite or NaN x (it is NaN), so the difference of two identical
    input-dependent polynomials is kept as an atom `nanzero(x)` (0 for finite x, NaN otherwise) instead of cancelling."""
    if a and pkey(a) == pkey(b) and any(at[0] == "in" for at in patoms(a)):
        return patom(("call", "nanzero", (_freeze(a),)))
    return padd(a, b, -1)


# ---------------- symbolic evaluation ----------------
class Eval:
    def __init__(self, outer_env=None, simd_names=("simd",)):
        self.env = dict(outer_env or {})      # binding id -> poly
        self.mem = {}                          # ('in', i, k) -> current poly of the element behind a &mut input
        self.acc = {}                          # acc binding id -> current poly
        self.acc_order = []
        self.racc = {}                         # key -> poly  (fields of the reduced result, e.g. out.0)
        self.outputs = {}                      # ('in', i, k) -> poly stored
        self.notes = []
        self.acc_ids = set()
        self.racc_roots = {}                   # binding id of the reduced result -> True

    # --- reading ---
    def ev(self, n):
        n = self._peel(n)
        k = n.get("k")
        if k == "Lit":
            l = n["lit"]
            if l["lk"] in ("int", "float"):
                try:
                    return pconst(Fraction(str(l["v"]).replace("_", "").rstrip("f64").rstrip("f32") or "0"))
                except (ValueError, ZeroDivisionError):
                    return patom(("var", "lit:" + str(l["v"])))
            return patom(("var", "lit:" + str(l["v"])))
        if k == "Path":
            lid = K.local_id(n)
            if lid is not None:
                if lid in self.acc_ids:
                    return self.acc.get(lid, patom(("acc", lid)))
                if lid in self.racc_roots:
                    return self.racc.get((lid, None), patom(("racc", lid, None)))
                v = self.env.get(lid)
                if v is not None:
                    if len(v) == 1:
                        (m, c), = v.items()
                        if c == 1 and len(m) == 1 and m[0][0] == "in" and m[0] in self.mem:
                            return self.mem[m[0]]
                    return v
                return patom(("var", n["res"].get("name") or lid))
            return patom(("var", n["res"].get("def") or "?"))
        if k == "Field":
            base = self._peel(n["e"])
            lid = K.local_id(base)
            if lid is not None and lid in self.racc_roots:
                return self.racc.get((lid, n["name"]), patom(("racc", lid, n["name"])))
            if lid is not None and lid in self.env:
                return patom(("var", "%s.%s" % (pshow(self.env[lid]), n["name"])))
            return patom(("var", "%s.%s" % (K.local_name(base) or "?", n["name"])))
        if k == "Unary":
            if n["op"] == "-":
                return pneg(self.ev(n["a"]))
            if n["op"] == "!":
                return patom(("call", "not", (_freeze(self.ev(n["a"])),)))
            return self.ev(n["a"])
        if k == "Binary":
            a, b = self.ev(n["a"]), self.ev(n["b"])
            op = n["op"]
            if op == "+":
                return padd(a, b)
            if op == "-":
                return psub_float(a, b)
            if op == "*":
                return pmul(a, b)
            if op == "/":
                if len(b) == 1 and () in b:
                    return {m: c / b[()] for m, c in a.items()}
                return pmul(a, patom(("call", "recip", (_freeze(b),))))
            return patom(("call", op, (_freeze(a), _freeze(b))))
        if k == "MethodCall":
            m = n["method"]
            recv = self._peel(n["recv"])
            args = n.get("args", [])
            if m in SIMD_BIN and len(args) == 2:
                a, b = self.ev(args[0]), self.ev(args[1])
                op = SIMD_BIN[m]
                if op == "+":
                    return padd(a, b)
                if op == "-":
                    return psub_float(a, b)
                if op == "*":
                    return pmul(a, b)
                return patom(("call", op, (_freeze(a), _freeze(b))))
            if m in SIMD_FMA and len(args) == 3:
                return padd(pmul(self.ev(args[0]), self.ev(args[1])), self.ev(args[2]))
            if m in SIMD_NEG_FMA and len(args) == 3:
                s1, s2 = SIMD_NEG_FMA[m]
                return padd({mm: s1 * c for mm, c in pmul(self.ev(args[0]), self.ev(args[1])).items()}, self.ev(args[2]), s2)
            if m == "splat_f64s" and len(args) == 1:
                return self.ev(args[0])
            if m == "neg_f64s" and len(args) == 1:
                return pneg(self.ev(args[0]))
            if m == "reduce_sum_f64s" and len(args) == 1:
                return self.ev(args[0])   # a horizontal sum is linear: the sum of per-lane polynomials
            if m == "mul_add" and len(args) == 2:
                return padd(pmul(self.ev(n["recv"]), self.ev(args[0])), self.ev(args[1]))
            if m in ("clone", "to_owned", "into", "borrow", "deref", "copied"):
                return self.ev(n["recv"])
            return patom(("call", m, tuple([_freeze(self.ev(n["recv"]))] + [_freeze(self.ev(a)) for a in args])))
        if k == "Call":
            f = self._peel(n["f"])
            nm = (f.get("res", {}).get("def") or "?") if f.get("k") == "Path" else "?"
            return patom(("call", nm.split("::")[-1], tuple(_freeze(self.ev(a)) for a in n.get("args", []))))
        if k == "Tup":
            return patom(("call", "tuple", tuple(_freeze(self.ev(e)) for e in n["es"])))
        if k == "Block":
            self.stmts(n.get("stmts", []))
            if n.get("expr") is not None:
                return self.ev(n["expr"])
            return {}
        if k in ("Cast", "Type"):
            return self.ev(n["e"])
        if k == "Index":
            return patom(("call", "index", (_freeze(self.ev(n["e"])), _freeze(self.ev(n["i"])))))
        self.notes.append("unhandled expression %s" % k)
        return patom(("var", "?" + str(k)))

    @staticmethod
    def _peel(n):
        while isinstance(n, dict):
            k = n.get("k")
            if k == "AddrOf":
                n = n["e"]
            elif k == "Unary" and n.get("op") == "*":
                n = n["a"]
            elif k == "Block" and not n.get("stmts") and n.get("expr") is not None:
                n = n["expr"]
            elif k in ("Use", "DropTemps"):
                n = n["e"]
            else:
                break
        return n

    # --- writing ---
    def target(self, n):
        n = self._peel(n)
        k = n.get("k")
        if k == "Path":
            lid = K.local_id(n)
            if lid is None:
                return None
            if lid in self.acc_ids:
                return ("acc", lid)
            if lid in self.racc_roots:
                return ("racc", lid, None)
            v = self.env.get(lid)
            if v is not None and len(v) == 1:
                (m, c), = v.items()
                if c == 1 and len(m) == 1 and m[0][0] == "in":
                    return m[0]
            return ("local", lid)
        if k == "Field":
            lid = K.local_id(self._peel(n["e"]))
            if lid is not None and lid in self.racc_roots:
                return ("racc", lid, n["name"])
        return None

    def assign(self, tgt, val, node):
        if tgt is None:
            self.notes.append("assignment to an unrecognised place")
            return
        if tgt[0] == "acc":
            if tgt[1] not in self.acc_order:
                self.acc_order.append(tgt[1])
            self.acc[tgt[1]] = val
        elif tgt[0] == "racc":
            self.racc[(tgt[1], tgt[2])] = val
        elif tgt[0] == "in":
            self.mem[tgt] = val
            self.outputs[tgt] = val
        elif tgt[0] == "local":
            self.env[tgt[1]] = val

    def stmts(self, stmts):
        for st in stmts:
            k = st.get("k")
            if k == "Let":
                pat = st["pat"]
                while pat.get("k") == "Ref":
                    pat = pat["pat"]
                if pat.get("k") == "Binding" and st.get("init") is not None:
                    self.env[pat["id"]] = self.ev(st["init"])
                elif st.get("init") is not None:
                    self.ev(st["init"])
            elif k in ("Semi", "ExprStmt"):
                self.exec(st["e"])

    def exec(self, e):
        e = self._peel(e)
        k = e.get("k")
        if k == "Assign":
            self.assign(self.target(e["l"]), self.ev(e["r"]), e)
        elif k == "AssignOp":
            tgt = self.target(e["l"])
            cur = self.ev(e["l"])
            r = self.ev(e["r"])
            op = e["op"].rstrip("=")
            if op == "+":
                v = padd(cur, r)
            elif op == "-":
                v = padd(cur, r, -1)
            elif op == "*":
                v = pmul(cur, r)
            else:
                v = patom(("call", op, (_freeze(cur), _freeze(r))))
            self.assign(tgt, v, e)
        elif k == "Block":
            self.stmts(e.get("stmts", []))
            if e.get("expr") is not None:
                self.exec(e["expr"])
        else:
            self.ev(e)


def bind_params(ev, closure, operand_ix):
    """Bind the tuple parameter of a for_each closure. operand_ix: list of operand indices in zip order.
    Returns lanes: None for element-wise patterns, or the number of unrolled lanes."""
    ps = closure.get("params", [])
    if len(ps) != 1:
        return None, "closure takes %d parameters" % len(ps)
    p = ps[0]
    while p.get("k") == "Ref":
        p = p["pat"]
    elems = p["pats"] if p.get("k") == "Tuple" else [p]
    if len(elems) != len(operand_ix):
        return None, "closure pattern has %d elements for %d zipped operands" % (len(elems), len(operand_ix))
    lanes = None
    for q, i in zip(elems, operand_ix):
        while q.get("k") in ("Ref", "Deref"):
            q = q["pat"]
        if q.get("k") == "Slice":
            bs = q["before"]
            if q.get("mid") or q.get("after"):
                return None, "slice pattern with a rest"
            if lanes is None:
                lanes = len(bs)
            elif lanes != len(bs):
                return None, "operands unrolled by different widths"
            for kk, bq in enumerate(bs):
                while bq.get("k") in ("Ref", "Deref"):
                    bq = bq["pat"]
                if bq.get("k") != "Binding":
                    return None, "non-binding in lane pattern"
                ev.env[bq["id"]] = patom(("in", i, kk))
        elif q.get("k") == "Binding":
            ev.env[q["id"]] = patom(("in", i, None))
        elif q.get("k") == "Wild":
            pass
        else:
            return None, "unsupported parameter pattern %s" % q.get("k")
    return (lanes or 0), None

"""C02 - integrator is the textbook leapfrog for the implied mass matrix (structural clauses)."""
from .facts import path_ends, loc, strip_generics, vt_walk, vt_str
from . import common as K
from . import eff as E
from . import rel as Rl

LEVEL = ("Static structural conditions: leapfrog stage order by field effects (half velocity step from the start gradient -> position step from "
         "the new velocity -> density evaluation -> half velocity step from the new gradient -> kinetic energy -> gate) (R1); the two velocity "
         "half-steps use the same scalar h and the position step's scalar q satisfies h = q/2 as monomials (R2); for the diagonal and "
         "low-rank transformations the inverse position map is the exact reverse of the forward map with inverted operations (R3) and the gradient "
         "pull-back applies the linear factors of the inverse map in transposed order (R4); every writer of a transformation's scales/mean "
         "recomputes logdet and bumps the id on all paths (R5); initialize_trajectory re-whitens exactly when the id changed (R7). "
         "O(eps^2) energy error, volume preservation and exact conservation are numerical and not decided."
         " Added: the CPU backend carries no state between kernel calls except listed scratch buffers and identity-keyed memos (R8)."
         " Added (round 5): one leapfrog per kinetic-energy kind, path-sensitive on the kind - kinetic energy recomputed for Euclidean / ExactNormal, sibling half-steps read the same fields (R11); no two same-typed values handed down in each other's named position (R12, positive control); the ESH half-steps are the unclamped closed form (R13 = C18-R1 analysis)."
         " Added (round 6): the Transformation entry points go through position map, density and gradient map on every path to their return (R4); the CPU backend hands scalars to the kernels unmodified (R14 = C17-K13); transformation_id returns the live id, not a remembered copy (R15).")
EXPLANATION = "EFF field-effect summaries through helper functions (from the &/&mut signatures of the Math trait), dominance, path enumeration of the small transform functions, monomial normalisation of scalar arguments."
TRUSTED = ["rustc nightly MIR", "nutsfacts extractor", "rules/eff.py, rules/c02.py", "Math trait contract: &mut Vector parameters are outputs, & Vector parameters inputs"]
TECHNIQUE = "static analysis: field-effect summaries (EFF) + dominance + operation-sequence mirror comparison"

POINT_OUT_FIELDS = ("velocity", "transformed_position", "transformed_gradient", "kinetic_energy")


# ---------------------------------------------------------------------------------------------
# monomials
# ---------------------------------------------------------------------------------------------
def monomial(v):
    """(coef, sorted tuple of factor strings) for products/quotients by constants; None if not a monomial."""
    coef = 1.0
    factors = []

    def go(x, inv=False):
        nonlocal coef
        k = x[0]
        if k == "cast":
            return go(x[1], inv)
        if k == "const" and x[2] is not None:
            try:
                c = float(x[2])
            except ValueError:
                return False
            if inv:
                if c == 0:
                    return False
                coef /= c
            else:
                coef *= c
            return True
        if k == "bin" and x[1] == "Mul" and not inv:
            return go(x[2]) and go(x[3])
        if k == "bin" and x[1] == "Div" and not inv:
            return go(x[2]) and go(x[3], True)
        if k == "un" and x[1] == "Neg" and not inv:
            coef *= -1
            return go(x[2])
        if inv:
            return False
        factors.append(vt_str(x))
        return True
    if not go(v):
        return None
    return (coef, tuple(sorted(factors)))


def subst_args(v, argvals):
    """Replace ('arg', i, name) leaves of a callee-relative tree by call-site value trees."""
    if not isinstance(v, tuple):
        return v
    if v[0] == "arg" and v[1] - 1 < len(argvals) and argvals[v[1] - 1] is not None:
        return argvals[v[1] - 1]
    out = []
    for x in v:
        if isinstance(x, tuple):
            out.append(subst_args(x, argvals))
        elif isinstance(x, list):
            out.append([subst_args(y, argvals) for y in x])
        else:
            out.append(x)
    return tuple(out)


def site_effects(F, b, t):
    """call_effects with callee-relative scalars rewritten in terms of the caller."""
    c = t["callee"]
    efs = E.call_effects(F, b, t)
    tgt = c.get("resolved") or c.get("path")
    if tgt in F.bodies:
        argvals = [b.value(a) for a in t["args"]]
        efs = [(m, pl, leaf, [subst_args(s, argvals) for s in sc], ai) for (m, pl, leaf, sc, ai) in efs]
    return efs


# ---------------------------------------------------------------------------------------------
def r1_r2(F, R):
    R.rule("C02-R1", "leapfrog stage order by field effects: W(out.velocity <- start gradient) dominates W(out.transformed_position <- out.velocity) dominates the "
                     "density evaluation (W out.transformed_gradient) dominates W(out.velocity <- out gradient) dominates LeapfrogResult::Ok; kinetic energy "
                     "recomputed from the new velocity after the second half-step unless the kind is microcanonical")
    R.rule("C02-R2", "the velocity half-steps before and after the density evaluation use the same scalars, and every position-step scalar q has a "
                     "velocity scalar h with h = q/2 (same factors)")
    impls = F.trait_method_impls("Hamiltonian", "leapfrog")
    if not impls:
        R.missing("C02-R1", "impl Hamiltonian::leapfrog")
    for b in impls:
        site = "%s @%s" % (b.path, b.loc())
        calls = []
        for bb, t in b.calls():
            efs = site_effects(F, b, t)
            if efs:
                calls.append((bb, t, efs))
        # the start state is the parameter of type &State
        start_args = [i for i in range(1, b.arg_count + 1) if "State<" in b.local_ty(i)]
        if len(start_args) != 1:
            R.bad("C02-R1", b.path + ":start", site, "cannot identify the start-state parameter")
            continue
        S = ("arg", start_args[0])

        def is_start(pl):
            return pl is not None and pl[0] == S

        def is_out(pl):
            return pl is not None and pl[0][0] == "local"

        def W(efs, field):
            return [e for e in efs if e[0] == "W" and is_out(e[1]) and e[1][1][-1:] == (field,)]

        def Rd(efs, field, pred):
            return [e for e in efs if e[0] == "R" and pred(e[1]) and e[1][1][-1:] == (field,)]
        dens = [(bb, t, efs) for (bb, t, efs) in calls if W(efs, "transformed_gradient")]
        if len(dens) != 1:
            R.bad("C02-R1", b.path + ":density", site, "expected exactly one density evaluation writing out.transformed_gradient, found %d" % len(dens))
            continue
        dbb = dens[0][0]
        first = [(bb, t, efs) for (bb, t, efs) in calls if W(efs, "velocity") and Rd(efs, "transformed_gradient", is_start)]
        second = [(bb, t, efs) for (bb, t, efs) in calls if W(efs, "velocity") and Rd(efs, "transformed_gradient", is_out)]
        pos = [(bb, t, efs) for (bb, t, efs) in calls if W(efs, "transformed_position") and bb != dbb]
        kin = [(bb, t, efs) for (bb, t, efs) in calls if W(efs, "kinetic_energy") and any(e[2] == "array_vector_dot" for e in efs)]
        # the same update written in place: `out.kinetic_energy = 0.5 * math.array_vector_dot(&out.velocity, &out.velocity)`
        for bi_, blk_ in enumerate(b.blocks):
            if blk_["cleanup"]:
                continue
            for st_ in blk_["stmts"]:
                if st_["k"] == "assign" and st_["pl"]["p"] and isinstance(st_["pl"]["p"][-1], dict) and st_["pl"]["p"][-1].get("n") == "kinetic_energy":
                    v_ = b.rvalue_value(st_["rv"])
                    dots = [x for x in vt_walk(v_) if x[0] == "call" and x[3].get("name") == "array_vector_dot"]
                    tgt_ = E.place_of(F, b, b.place_value(st_["pl"]))
                    if dots and tgt_ is not None and is_out(tgt_) and all(
                            (E.place_of(F, b, a_) is not None and is_out(E.place_of(F, b, a_)) and E.place_of(F, b, a_)[1][-1:] == ("velocity",)) for a_ in dots[0][2][1:]):
                        kin.append((bi_, st_, []))
        from .c05 import agg_blocks
        oks = [bi for (bi, _st) in agg_blocks(b, "LeapfrogResult", "Ok")]
        problems = []
        if len(first) != 1:
            problems.append("no unique first velocity half-step reading the start gradient (%d)" % len(first))
        if len(second) != 1:
            problems.append("no unique second velocity half-step reading the new gradient (%d)" % len(second))
        if len(pos) != 1:
            problems.append("no unique position step (%d)" % len(pos))
        if not oks:
            problems.append("no LeapfrogResult::Ok")
        if problems:
            R.bad("C02-R1", b.path + ":stages", site, "; ".join(problems))
            continue
        fbb, pbb, sbb = first[0][0], pos[0][0], second[0][0]
        order_ok = b.dominates(fbb, pbb) and fbb != pbb and b.dominates(pbb, dbb) and pbb != dbb and b.dominates(dbb, sbb) and dbb != sbb and all(b.dominates(sbb, o) for o in oks)
        key = b.path + ":stage-order"
        if order_ok:
            R.ok("C02-R1", key, site, "half-step(start grad) -> position -> density -> half-step(new grad) -> Ok")
        else:
            R.bad("C02-R1", key, site, "leapfrog stages are out of order (first@bb%d position@bb%d density@bb%d second@bb%d)" % (fbb, pbb, dbb, sbb))
        # position step reads the *new* velocity
        pefs = pos[0][2]
        key = b.path + ":position-uses-new-velocity"
        if Rd(pefs, "velocity", is_start):
            R.bad("C02-R1", key, "%s @%s" % (b.path, loc(pos[0][1]["span"])), "position step reads the start velocity instead of the half-stepped one")
        elif Rd(pefs, "velocity", is_out) or W(pefs, "velocity"):
            R.ok("C02-R1", key, "%s @%s" % (b.path, loc(pos[0][1]["span"])), "position step uses out.velocity")
        else:
            R.bad("C02-R1", key, "%s @%s" % (b.path, loc(pos[0][1]["span"])), "position step does not use the velocity")
        # kinetic energy
        key = b.path + ":kinetic-energy"
        if len(kin) >= 1 and all(b.dominates(sbb, kb) for kb, _t, _e in kin):
            kb = kin[0][0]
            rels = Rl.edge_relations(b, kb)
            micro = any("Microcanonical" in (vt_str(l) + vt_str(r) if r else vt_str(l)) or "KineticEnergyKind" in (vt_str(l) + (vt_str(r) if r else "")) for (o, l, r, _s) in rels)
            cds = b.control_deps_trans(kb)
            R.ok("C02-R1", key, "%s @%s" % (b.path, loc(kin[0][1]["span"])), "kinetic energy recomputed from out.velocity after the second half-step%s" % (" (skipped for the microcanonical kind)" if cds else ""))
        else:
            R.bad("C02-R1", key, site, "kinetic energy is not recomputed from the new velocity after the second half-step")
        # R2 scalars
        def scal(efs, field):
            out = set()
            for e in efs:
                if e[0] == "W" and is_out(e[1]) and e[1][1][-1:] == (field,) and e[2] != "copy_into" and e[2] != "=":
                    for s in e[3]:
                        m = monomial(s)
                        out.add(m if m is not None else ("?", vt_str(s)))
            return out
        h1, h2, q = scal(first[0][2], "velocity"), scal(second[0][2], "velocity"), scal(pefs, "transformed_position")
        key = b.path + ":half-step-siblings"
        if h1 and h1 == h2 and all(x[0] != "?" for x in h1):
            R.ok("C02-R2", key, site, "both half-steps use %s" % sorted(h1))
        else:
            R.bad("C02-R2", key, site, "first and second velocity half-step use different scalars: %s vs %s" % (sorted(h1, key=str), sorted(h2, key=str)))
        key = b.path + ":half-of-position-step"
        bad = []
        for (c, fs) in q:
            if c == "?" or not any((hc, hf) == (c / 2.0, fs) for (hc, hf) in h1 if hc != "?"):
                bad.append((c, fs))
        if q and not bad:
            R.ok("C02-R2", key, site, "position scalars %s, velocity scalars %s" % (sorted(q, key=str), sorted(h1, key=str)))
        else:
            R.bad("C02-R2", key, site, "velocity half-step is not half of the position step: position %s, velocity %s" % (sorted(q, key=str), sorted(h1, key=str)))
    R.floor("C02-R1", 3)
    R.floor("C02-R2", 2)


# ---------------------------------------------------------------------------------------------
# operation sequences of the transform maps
# ---------------------------------------------------------------------------------------------
INVERSE = {"stds": "inv_stds", "inv_stds": "stds", "vals_sqrt": "vals_sqrt_inv", "vals_sqrt_inv": "vals_sqrt"}


def op_of(F, b, t):
    """Abstract op of one Math call inside a transform map: ('shift', vec, sign) | ('scale', vec) | ('lowrank', vals)"""
    c = t["callee"]
    name = c.get("name")
    efs = E.call_effects(F, b, t)
    reads = [e for e in efs if e[0] == "R" and e[1] is not None and e[1][0] == ("arg", 1)]
    selfvec = [e[1][1][-1] for e in reads]
    if name in ("axpy_out", "axpy"):
        sc = [s for e in efs for s in e[3]]
        sign = None
        for s in sc:
            if s[0] == "const" and s[2] is not None:
                sign = float(s[2])
        vec = selfvec[0] if selfvec else None
        return ("shift", vec, sign)
    if name in ("array_mult", "array_mult_inplace"):
        return ("scale", selfvec[0] if selfvec else None)
    if name in ("apply_lowrank_transform", "apply_lowrank_transform_inplace"):
        vals = [x for x in selfvec if x.startswith("vals")]
        return ("lowrank", vals[0] if vals else None)
    return None


def paths_ops(F, b, _stack=()):
    """{decision-key: [ops]} for every acyclic path entry -> return of a small function. A call of another workspace function that
    itself applies Math ops (a map delegating to the map of its diagonal part) contributes the callee's sequence in place."""
    out = {}
    succ = b.succ_map()

    def walk(bb, ops, decisions, seen):
        if bb in seen or len(seen) > 200:
            return
        blk = b.blocks[bb]
        t = blk["term"]
        ops2 = ops
        if t["k"] == "call" and "path" in t["callee"]:
            c = t["callee"]
            if c.get("trait") and path_ends(c["trait"], "Math"):
                o = op_of(F, b, t)
                if o:
                    ops2 = ops + [o]
            else:
                cb = F.bodies.get(c.get("resolved") or c["path"])
                if cb is not None and cb.kind != "closure" and cb.blocks and cb.path != b.path and cb.path not in _stack and len(_stack) < 3 \
                        and t.get("target") is not None:
                    sub = paths_ops(F, cb, _stack + (b.path,))
                    sub = {d: o for d, o in sub.items() if o}
                    if sub:
                        for d, o in sorted(sub.items()):
                            walk(t["target"], ops + o, decisions + list(d), seen | {bb})
                        return
        if t["k"] == "return":
            out[tuple(sorted(decisions))] = ops2
            return
        if t["k"] == "switch" and t.get("enum_variants"):
            for a in t["arms"]:
                walk(a["target"], ops2, decisions + [a["name"]], seen | {bb})
            named = {a["name"] for a in t["arms"]}
            rest = [v for v in t["enum_variants"] if v not in named]
            if rest and not b.blocks[t["otherwise"]]["term"]["k"] == "unreachable":
                walk(t["otherwise"], ops2, decisions + rest[:1], seen | {bb})
            return
        for s in succ[bb]:
            walk(s, ops2, decisions, seen | {bb})
    walk(0, [], [], frozenset())
    return out


def invert_seq(ops):
    out = []
    for o in reversed(ops):
        if o[0] == "shift":
            out.append(("shift", o[1], -o[2] if o[2] is not None else None))
        elif o[0] == "scale":
            out.append(("scale", INVERSE.get(o[1], "?" + str(o[1]))))
        elif o[0] == "lowrank":
            out.append(("lowrank", INVERSE.get(o[1], "?" + str(o[1]))))
    return out


def transform_types(F):
    out = []
    for p, a in F.adts.items():
        fwd = F.inherent_methods(p, "compute_transformed_position")
        inv = F.inherent_methods(p, "compute_untransformed_position")
        grad = F.inherent_methods(p, "compute_transformed_gradient")
        if fwd and inv and grad:
            out.append((p, fwd[0], inv[0], grad[0]))
    return out


def r3_r4(F, R):
    R.rule("C02-R3", "for every affine transformation the op sequence of compute_untransformed_position is the reverse of compute_transformed_position with "
                     "each op inverted (shift(v,-1)<->shift(v,+1), scale(inv_stds)<->scale(stds), lowrank(vals_sqrt_inv)<->lowrank(vals_sqrt)), per variant of the optional low-rank part")
    R.rule("C02-R4", "the gradient pull-back applies the linear factors (scale / lowrank, no shifts) of the inverse position map in reversed (transposed) order; "
                     "the three trait entry points call position map, density and gradient map consistently and return the same logdet source")
    tts = transform_types(F)
    if len(tts) < 2:
        R.missing("C02-R3", "transformation types with compute_(un)transformed_position (found %d)" % len(tts))
    for (adt, fwd, inv, grad) in tts:
        pf, pi, pg = paths_ops(F, fwd), paths_ops(F, inv), paths_ops(F, grad)
        for dec in sorted(pf):
            key = "%s:mirror:%s" % (adt, "/".join(dec) or "-")
            site = "%s @%s" % (inv.path, inv.loc())
            if dec not in pi:
                R.bad("C02-R3", key, site, "inverse map has no path for case %s" % (dec,))
                continue
            want = invert_seq(pf[dec])
            if want == pi[dec] and pf[dec]:
                R.ok("C02-R3", key, site, "forward %s | inverse %s" % (pf[dec], pi[dec]))
            else:
                R.bad("C02-R3", key, site, "inverse position map %s is not the mirror of the forward map %s (expected %s)" % (pi[dec], pf[dec], want))
            key = "%s:pullback:%s" % (adt, "/".join(dec) or "-")
            gsite = "%s @%s" % (grad.path, grad.loc())
            if dec not in pg:
                R.bad("C02-R4", key, gsite, "gradient map has no path for case %s" % (dec,))
                continue
            lin = [o for o in pi[dec] if o[0] != "shift"]
            if list(reversed(lin)) == pg[dec] and lin:
                R.ok("C02-R4", key, gsite, "pull-back %s = transpose of inverse map factors %s" % (pg[dec], lin))
            else:
                R.bad("C02-R4", key, gsite, "gradient pull-back %s does not apply the factors of the inverse map %s in transposed order" % (pg[dec], lin))
        # trait entry points
        for name, expect in (("init_from_untransformed_position", ["logp_array", "compute_transformed_position", "compute_transformed_gradient"]),
                             ("init_from_transformed_position", ["compute_untransformed_position", "logp_array", "compute_transformed_gradient"]),
                             ("inv_transform_normalize", ["compute_transformed_position", "compute_transformed_gradient"])):
            for tb in F.trait_method_impls("Transformation", name):
                if tb.parent.get("self_adt") != adt:
                    continue
                seq = []
                blocks = []
                for bb, t in tb.calls():
                    n = t["callee"].get("name")
                    if n in ("logp_array", "compute_transformed_position", "compute_untransformed_position", "compute_transformed_gradient"):
                        seq.append(n)
                        blocks.append(bb)
                key = "%s:entry" % tb.path
                tsite = "%s @%s" % (tb.path, tb.loc())
                dom = all(tb.dominates(blocks[i], blocks[i + 1]) for i in range(len(blocks) - 1))
                # every path: no return without the first stage, and none that leaves the sequence early other than on the density's `?`
                rets = {x for x, blk in enumerate(tb.blocks) if blk["term"]["k"] == "return"}
                skipped = None
                if seq == expect and dom:
                    if rets & tb.reach_from(0, avoid=(blocks[0],)):
                        skipped = seq[0]
                    for i in range(1, len(blocks)):
                        if seq[i - 1] != "logp_array" and rets & tb.reach_from(blocks[i - 1], avoid=(blocks[i],)):
                            skipped = skipped or seq[i]
                if skipped:
                    R.bad("C02-R4", key, tsite, "%s has a path to its return that does not go through %s (a short cut that answers from other data than the "
                          "position / gradient maps R3 and R4 pair up)" % (name, skipped))
                elif seq == expect and dom:
                    R.ok("C02-R4", key, tsite, " -> ".join(seq) + " on every path")
                else:
                    R.bad("C02-R4", key, tsite, "%s calls %s, expected %s in this order" % (name, seq, expect))
    R.floor("C02-R3", 3)
    R.floor("C02-R4", 9)


def r5(F, R):
    R.rule("C02-R5", "every function that writes the scale/mean vectors of a transformation (or replaces its low-rank part) afterwards assigns logdet and "
                     "increments the id on every path to return; DiagMassMatrix.logdet comes from array_sum_ln(inv_stds)")
    tts = transform_types(F)
    for (adt, _f, _i, _g) in tts:
        a = F.adts[adt]
        fields = [f["name"] for v in a["variants"] for f in v["fields"]]
        vec_fields = [f["name"] for v in a["variants"] for f in v["fields"] if f["name"] in ("mean", "stds", "inv_stds", "diag", "inner")]
        writers = {}
        for b in F.bodies.values():
            if b.kind == "closure" or b.parent.get("self_adt") != adt or b.parent.get("trait") or b.fn_name == "new":
                continue
            wblocks = []
            for bb, t in b.calls():
                for (m, pl, leaf, sc, ai) in E.call_effects(F, b, t):
                    if m == "W" and pl is not None and pl[0] == ("arg", 1) and pl[1] and pl[1][0] in vec_fields and leaf != "transformation_id":
                        wblocks.append((bb, t["span"]))
            for (wb, bb, st, v, how) in K.field_writers(F, adt, "inner"):
                if wb.path == b.path and how == "assign":
                    wblocks.append((bb, st["span"]))
            if wblocks:
                writers[b.path] = (b, wblocks)
        if not writers:
            R.missing("C02-R5", "writers of %s scale fields" % adt)
        for p, (b, wblocks) in sorted(writers.items()):
            site = "%s @%s" % (p, b.loc())
            idw = [(bb, st, v) for (wb, bb, st, v, how) in K.field_writers(F, adt, "id") if wb.path == p]
            ldw = [(bb, st, v) for (wb, bb, st, v, how) in K.field_writers(F, adt, "logdet") if wb.path == p]
            # writes performed by a helper method of the same type that the writer calls (on all of the helper's paths)
            for bb, t in b.calls():
                tgt = t["callee"].get("resolved") or t["callee"].get("path")
                hb = F.bodies.get(tgt)
                if hb is None or hb.path == p or hb.parent.get("self_adt") != adt or not t["args"]:
                    continue
                recv = b.value(t["args"][0])
                while recv[0] in ("ref", "deref"):
                    recv = recv[1]
                if recv[0] != "arg" or recv[1] != 1:
                    continue
                hpd = hb.postdominators()
                for fld, acc in (("id", idw), ("logdet", ldw)):
                    for (wb, hbb, hst, hv, how) in K.field_writers(F, adt, fld):
                        if wb.path == hb.path and how in ("assign", "call") and hbb in hpd.get(0, ()):
                            acc.append((bb, hst, hv))
            pdom = b.postdominators()
            key = "%s:co-update" % p
            problems = []
            if not idw or not all("AddWithOverflow" in vt_str(v) and ".id" in vt_str(v) for (_bb, _st, v) in idw):
                problems.append("id is not incremented")
            if not ldw:
                problems.append("logdet is not recomputed")
            for (wbb, sp) in wblocks:
                if idw and not any(ib in pdom.get(wbb, ()) or b.dominates(ib, wbb) for (ib, _s, _v) in idw):
                    problems.append("a write at %s is not followed by the id increment on every path" % loc(sp))
                if ldw and not any(lb in pdom.get(wbb, ()) or b.dominates(lb, wbb) for (lb, _s, _v) in ldw):
                    problems.append("a write at %s is not followed by the logdet update on every path" % loc(sp))
            if "inv_stds" in fields and ldw:
                for (_bb, _st, v) in ldw:
                    s = vt_str(v)
                    if not ("array_sum_ln" in s and "inv_stds" in s):
                        problems.append("logdet = %s, expected array_sum_ln(inv_stds)" % s)
            if "diag" in fields and ldw:
                for (_bb, _st, v) in ldw:
                    s = vt_str(v)
                    src = b.slice([{"k": "copy", "pl": _st["pl"]}], control=False) if False else None
                    calls = [n_[1] for n_ in vt_walk(v) if n_[0] == "call"]
                    need_inner = any(wb.path == p for (wb, _b2, _s2, _v2, how) in K.field_writers(F, adt, "inner") if _v2[0] != "agg" or "None" not in str(_v2[1]))
                    has_diag = any(path_ends(c, "DiagMassMatrix::logdet") for c in calls)
                    has_inner = any(path_ends(c, "InnerMatrix::logdet") for c in calls)
                    if not has_diag:
                        problems.append("logdet does not include the diagonal part")
            if problems:
                R.bad("C02-R5", key, site, "; ".join(sorted(set(problems))))
            else:
                R.ok("C02-R5", key, site, "writes are followed by logdet update and id += 1")
    R.floor("C02-R5", 6)


from .c05 import agg_blocks


def r7(F, R):
    R.rule("C02-R7", "initialize_trajectory recomputes the whitened coordinates, logdet and transform_id exactly under `transformation_id() != point.transform_id`, "
                     "and sets initial_energy = energy() after index_in_trajectory = 0")
    for b in F.trait_method_impls("Hamiltonian", "initialize_trajectory"):
        site = "%s @%s" % (b.path, b.loc())
        norm = b.calls_to(lambda c: path_ends(c["path"], "Transformation::inv_transform_normalize"))
        if len(norm) != 1:
            R.bad("C02-R7", b.path + ":rewhiten", site, "expected one inv_transform_normalize call, found %d" % len(norm))
            continue
        nbb, nt = norm[0]
        rels = Rl.edge_relations(b, nbb)
        guard = False
        for (o, l, r, _s) in rels:
            if o == "Ne" and r is not None:
                s1, s2 = vt_str(l), vt_str(r)
                if ("transformation_id" in s1 and "transform_id" in s2) or ("transformation_id" in s2 and "transform_id" in s1):
                    guard = True
        key = b.path + ":rewhiten-guard"
        if guard:
            R.ok("C02-R7", key, "%s @%s" % (b.path, loc(nt["span"])), "re-whitening under transformation_id() != point.transform_id")
        else:
            R.bad("C02-R7", key, "%s @%s" % (b.path, loc(nt["span"])), "re-whitening is not guarded by transformation_id() != point.transform_id: %s" % [(o, vt_str(l), vt_str(r) if r else None) for (o, l, r, _s) in rels])
        # co-writes in the region
        pt = "dynamics::transformed_hamiltonian::TransformedPoint"
        reach = b.reach_from(nt["target"]) if nt.get("target") is not None else set()
        for f, src in (("logdet", "inv_transform_normalize"), ("transform_id", "transformation_id")):
            ws = [(bb, st, v) for (wb, bb, st, v, how) in K.field_writers(F, pt, f) if wb.path == b.path]
            key = "%s:%s" % (b.path, f)
            if ws and all(src in vt_str(v) and b.dominates(nbb, bb) for (bb, st, v) in ws):
                R.ok("C02-R7", key, site, "point.%s updated from %s in the re-whitening branch" % (f, src))
            else:
                R.bad("C02-R7", key, site, "point.%s is not updated from %s together with the re-whitening" % (f, src))
        ie = [(bb, st, v) for (wb, bb, st, v, how) in K.field_writers(F, pt, "initial_energy") if wb.path == b.path]
        idx = [(bb, st, v) for (wb, bb, st, v, how) in K.field_writers(F, pt, "index_in_trajectory") if wb.path == b.path]
        key = b.path + ":initial-energy"
        okie = len(ie) == 1 and "Point::energy" in vt_str(ie[0][2]) and idx and all(v[0] == "const" and v[2] == "0" for (_b, _s, v) in idx) and \
            all(b.dominates(ib, ie[0][0]) for (ib, _s, _v) in idx) and \
            all(b.dominates(ie[0][0], okb) for (okb, okst) in agg_blocks(b, "Result", "Ok") if okst["pl"]["l"] == 0)
        if okie:
            R.ok("C02-R7", key, site, "initial_energy = energy() after index_in_trajectory = 0, on every path")
        else:
            R.bad("C02-R7", key, site, "initial_energy is not set from energy() after index_in_trajectory = 0 on every path")
    R.floor("C02-R7", 4)


def r10(F, R):
    """Log-determinants are sums of logarithms, not logarithms of products."""
    R.rule("C02-R10", "in the transformation and math code no logarithm is taken of a product reduction (`xs.iter().product().ln()`): the log-determinant of a "
                      "transformation whose scales / eigenvalues are all finite and positive must be finite, a product of 48 eigenvalues of 1e7 is not")
    n = 0
    for b in sorted(F.bodies.values(), key=lambda x: x.path):
        sa = b.parent.get("self_adt") or ""
        if not (b.path.startswith(("transform::", "<transform::", "math::", "<math::")) or sa.startswith(("transform::", "math::"))):
            continue
        for bb, t in b.calls():
            c = t["callee"]
            if c.get("name") in ("ln", "log2", "log10", "ln_1p") and c.get("impl_self") in ("f64", "f32") and t["args"]:
                n += 1
                v = b.value(t["args"][0])
                prods = [x for x in vt_walk(v) if x[0] == "call" and strip_generics(x[1]).endswith(("Iterator::product", "::product"))]
                key = "%s:ln#%d" % (b.path, n)
                site = "%s @%s" % (b.path, loc(t["span"]))
                if prods:
                    R.bad("C02-R10", "%s:ln-of-product" % b.path, site, "logarithm of a product reduction: over- / underflows to +-inf long before the sum of logarithms does")
                else:
                    R.ok("C02-R10", key, site, "ln of %s" % vt_str(v)[:60])
    R.floor("C02-R10", 2)



KINDS = ("Euclidean", "ExactNormal", "Microcanonical")


def _kind_locals(b):
    return [i for i, l in enumerate(b.locals) if str(l.get("ty")).endswith("KineticEnergyKind") and (b.local_name(i) or b.is_arg(i))]


def _kind_oracle(b, variant):
    ks = set(_kind_locals(b))

    def oracle(pl):
        if pl["l"] in ks and not pl["p"]:
            return ("V", variant, ())
        if pl["p"] and isinstance(pl["p"][-1], dict) and str(pl["p"][-1].get("ty")).endswith("KineticEnergyKind"):
            return ("V", variant, ())
        return None
    return oracle


def _same_name(a, b):
    """Parameter names agree up to a leading underscore and a typo (`untransofrmed_gradient`)."""
    import difflib
    a, b = a.lstrip("_"), b.lstrip("_")
    return a == b or (min(len(a), len(b)) >= 6 and difflib.SequenceMatcher(None, a, b).ratio() >= 0.92)


def swapped_arguments(F, in_scope=lambda b: True):
    """Calls that hand two of the caller's named values to a workspace function in each other's place: argument i is a local / parameter named
    like the callee's parameter j and argument j one named like the callee's parameter i (same types, so the compiler is silent)."""
    out = []
    names_of = {}

    def pnames(path):
        if path not in names_of:
            cb = F.any_body(path)
            names_of[path] = [cb.local_name(i) for i in range(1, cb.arg_count + 1)] if cb is not None and cb.blocks else None
        return names_of[path]
    impls_by_trait_fn = {}
    for b in F.bodies.values():
        p_ = b.parent
        if b.kind == "method" and p_.get("trait") and p_.get("fn_name"):
            impls_by_trait_fn.setdefault((strip_generics(p_["trait"]), p_["fn_name"]), []).append(b.path)
    for b in sorted(F.bodies.values(), key=lambda x: x.path):
        if not in_scope(b) or not b.blocks:
            continue
        for bb, t in b.calls():
            c = t["callee"]
            tgt = c.get("resolved") or c.get("path")
            pn = pnames(tgt) if tgt in F.bodies or tgt in F.removed_helpers else None
            if pn is None and c.get("trait"):
                cands = impls_by_trait_fn.get((strip_generics(c["trait"]), c.get("name")), [])
                if cands:
                    pn = pnames(sorted(cands)[0])
            if not pn or len(pn) != len(t["args"]):
                continue
            an = []
            for a in t["args"]:
                nm = None
                if a["k"] in ("copy", "move"):
                    v = b.value(a)
                    while v[0] in ("ref", "deref"):
                        v = v[1]
                    if v[0] in ("arg", "local") and len(v) > 2:
                        nm = v[2]
                    elif v[0] == "field":
                        nm = v[2]
                an.append(nm)
            for i in range(len(an)):
                for j in range(i + 1, len(an)):
                    if an[i] and an[j] and pn[i] and pn[j] and an[i] != an[j] and _same_name(an[i], pn[j]) and _same_name(an[j], pn[i]) and \
                       not _same_name(an[i], pn[i]) and not _same_name(an[j], pn[j]) and \
                       str(t["args"][i].get("pl", {}).get("ty")) == str(t["args"][j].get("pl", {}).get("ty")):
                        out.append((b, bb, t, an[i], an[j], tgt))
    return out


def r12(F, R):
    R.rule("C02-R12", "no two values swapped on their way down: a call never passes the caller's `x` where the callee expects `y` and its `y` where the callee expects "
                      "`x` (both of one type, so it compiles): position and gradient, transformed and untransformed coordinates, source and destination are "
                      "handed through several layers (transformation -> math backend) by name")
    hits = swapped_arguments(F, lambda b: not K.is_std_derive(b))
    for (b, bb, t, x, y, tgt) in hits:
        R.bad("C02-R12", "%s:%s<->%s" % (b.path, x, y), "%s @%s" % (b.path, loc(t["span"])), "`%s` and `%s` are passed to %s in each other's position" % (x, y, strip_generics(tgt).split("::")[-1]))
    if not hits:
        n = sum(1 for b in F.bodies.values() for _c in b.calls())
        R.ok("C02-R12", "scan", "library crates", "%d calls examined, no pair of arguments in each other's named position" % n)
    P = K.positive_facts()
    if any(b.path.endswith("c02_swapped_caller") for (b, _bb, _t, _x, _y, _tg) in swapped_arguments(P)):
        R.ok("C02-R12", "positive-control", "fixtures/positive", "the planted swapped pair is reported")
    else:
        R.bad("C02-R12", "positive-control", "fixtures/positive", "matcher failed to report the planted swapped arguments")


def r11(F, R):
    R.rule("C02-R11", "one leapfrog per kinetic-energy kind (path-sensitive: the kind is assumed to be each of its variants in turn): (a) for the Euclidean and the "
                      "ExactNormal kind every path of leapfrog() to LeapfrogResult::Ok recomputes the kinetic energy of the new point (only the Microcanonical "
                      "kind carries it along) - a stale kinetic energy makes the energy of the point, hence the tree weights, wrong; (b) for every kind the "
                      "second velocity half-step reads the same fields of the point as the first one (position and gradient of the whitened space): a half-step "
                      "that differs from its sibling is not the adjoint, and the step is not reversible")
    from .c05 import agg_blocks
    lf = [b for b in F.trait_method_impls("Hamiltonian", "leapfrog") if "TransformedHamiltonian" in (b.parent.get("self_adt") or "")]
    if not lf:
        R.missing("C02-R11", "TransformedHamiltonian::leapfrog")
    for b in lf:
        site = "%s @%s" % (b.path, b.loc())
        if not _kind_locals(b):
            R.missing("C02-R11", "a KineticEnergyKind local in %s" % b.path)
            continue
        oks = [x[0] for x in agg_blocks(b, "LeapfrogResult", "Ok")]
        upd = [bb for bb, t in b.calls() if path_ends(t["callee"].get("path", ""), "update_kinetic_energy")]
        # the same written in place: a store into the kinetic_energy field of the new point (by assignment or as the destination of a call)
        for bi_, blk_ in enumerate(b.blocks):
            for st_ in blk_["stmts"]:
                if st_["k"] == "assign" and st_["pl"]["p"] and isinstance(st_["pl"]["p"][-1], dict) and st_["pl"]["p"][-1].get("n") == "kinetic_energy":
                    upd.append(bi_)
            t_ = blk_["term"]
            if t_["k"] == "call" and t_["dest"]["p"] and isinstance(t_["dest"]["p"][-1], dict) and t_["dest"]["p"][-1].get("n") == "kinetic_energy":
                upd.append(bi_)
        for kind in ("Euclidean", "ExactNormal"):
            key = "%s:kinetic-energy:%s" % (b.path, kind)
            FB = b.reach_feasible(0, oracle=_kind_oracle(b, kind))
            live_ok = [o for o in oks if o in FB]
            if not live_ok:
                R.bad("C02-R11", key, site, "with kind = %s no LeapfrogResult::Ok is reachable" % kind)
                continue
            free = b.reach_from(0, avoid=upd, succ_filter=lambda a_, c_: c_ in FB)
            stale = [o for o in live_ok if o in free]
            if stale:
                R.bad("C02-R11", key, site, "with kind = %s a path reaches LeapfrogResult::Ok without update_kinetic_energy: the new point keeps the kinetic "
                      "energy of whatever state the pool slot held before" % kind)
            else:
                R.ok("C02-R11", key, site, "kind = %s: every path to Ok recomputes the kinetic energy (%d feasible blocks)" % (kind, len(FB)))
    # (b) sibling half-steps per kind
    first = F.inherent_methods("TransformedPoint", "first_velocity_halfstep")
    second = F.inherent_methods("TransformedPoint", "second_velocity_halfstep")
    if len(first) != 1 or len(second) != 1:
        R.missing("C02-R11", "TransformedPoint::{first,second}_velocity_halfstep")
    else:
        def reads(b, kind):
            FB = b.reach_feasible(0, oracle=_kind_oracle(b, kind))
            out = set()
            n = 0
            for bb, t in b.calls():
                if bb not in FB or not (t["callee"].get("trait") and path_ends(t["callee"]["trait"], "math::Math")):
                    continue
                if t["callee"].get("name") in ("dim", "copy_into"):
                    continue
                n += 1
                for a in t["args"][1:]:
                    v = b.value(a)
                    if v[0] == "ref" and v[1][0] == "field":
                        base = v[1][1]
                        while base[0] in ("deref", "ref"):
                            base = base[1]
                        if base[0] == "arg" and base[1] == 1:
                            out.add(v[1][2])
            return out - {"velocity", "kinetic_energy"}, n
        fb, sb = first[0], second[0]
        for kind in KINDS:
            key = "TransformedPoint:half-step-fields:%s" % kind
            fr, fn_ = reads(fb, kind)
            sr, sn_ = reads(sb, kind)
            site = "%s @%s" % (sb.path, sb.loc())
            if not fn_ or not sn_:
                R.bad("C02-R11", key, site, "no Math kernel call in a half-step for kind = %s (first %d, second %d)" % (kind, fn_, sn_))
            elif fr == sr:
                R.ok("C02-R11", key, site, "kind = %s: both half-steps read %s" % (kind, sorted(fr)))
            else:
                R.bad("C02-R11", key, site, "kind = %s: the first half-step reads %s of the point, the second %s" % (kind, sorted(fr), sorted(sr)))
    R.floor("C02-R11", 5)



def r15(F, R, rid="C02-R15"):
    R.rule(rid, "the transformation id is read where it lives: every `Transformation::transformation_id` returns, on every path, either an integer field of the "
                "transformation itself (the counter R5 increments) or the answer of `Math::transformation_id(&self.params)` obtained in this very call - never a "
                "copy kept elsewhere (a Cell / Option cache): R7 compares this id with the point's to decide whether the whitened coordinates are stale, and "
                "parameters that are trained in place through `params_mut()` change the live id only")
    n = 0
    for b in F.trait_method_impls("Transformation", "transformation_id"):
        defs = []
        for bi, blk in enumerate(b.blocks):
            if blk["cleanup"]:
                continue
            for st in blk["stmts"]:
                if st["k"] == "assign" and st["pl"]["l"] == 0 and not st["pl"]["p"]:
                    defs.append((b.rvalue_value(st["rv"]), st["span"]))
            t = blk["term"]
            if t["k"] == "call" and t["dest"]["l"] == 0 and not t["dest"]["p"]:
                defs.append((("call", t["callee"].get("path", "?"), [b.value(a) for a in t["args"]], t["callee"]), t["span"]))
        n += 1
        key = b.path + ":live-id"
        site = "%s @%s" % (b.path, b.loc())
        bad = []
        for (v, sp) in defs:
            x = v
            while x[0] in ("deref", "ref", "cast"):
                x = x[1]
            if x[0] == "field":
                y = x[1]
                while y[0] in ("deref", "ref"):
                    y = y[1]
                if y[0] == "arg" and y[1] == 1:
                    continue
            names = [c[1] for c in vt_walk(v) if c[0] == "call"]
            if any(strip_generics(str(p)).endswith("Math::transformation_id") for p in names) and not any(
                    strip_generics(str(p)).split("::")[-2:-1] and strip_generics(str(p)).split("::")[-2] in ("Cell", "RefCell", "OnceCell", "OnceLock") for p in names):
                continue
            bad.append((vt_str(v)[:80], sp))
        if not defs:
            R.bad(rid, key, site, "cannot find the returned value")
        elif bad:
            R.bad(rid, key, "%s @%s" % (b.path, loc(bad[0][1])), "a path returns `%s`: not a field of the transformation and not a fresh Math::transformation_id(&self.params) - "
                  "an id that is remembered goes stale when the parameters are changed in place" % bad[0][0])
        else:
            R.ok(rid, key, site, "returned on every path: %s" % ", ".join(sorted({vt_str(v)[:50] for v, _ in defs})))
    R.floor(rid, 3)

def run(F, R, config="all"):
    r1_r2(F, R)
    r3_r4(F, R)
    r5(F, R)
    r7(F, R)
    # the integrator maps are functions of their arguments only if the backend carries nothing from one kernel call to the next
    from . import c17
    c17.stateless_backend(F, R, rid="C02-R8")
    # ... and the step size the integrator passes down is the one the kernel applies
    c17.forwarded_scalars(F, R, rid="C02-R14")
    # energy error O(eps^2): the baseline must be taken after the point is complete (logdet refreshed)
    from . import c03
    c03.snapshot(F, R, "C02-R9")
    r10(F, R)
    r11(F, R)
    r12(F, R)
    r15(F, R)
    # the ESH half-steps: closed form, renormalised, unclamped (C18-R1 analysis)
    from . import c18
    K.borrow_rule(R, lambda sub: c18.r1(F, sub), "C02-R13", "the microcanonical half-steps are the closed-form ESH update: computed from the gradient they are given, "
                  "renormalised, and without clamps on its scalars - so that a backward step undoes a forward step (C18-R1 analysis)", only_rules={"C18-R1"})
    R.assume("Math trait contract: `&mut Vector` parameters are written, `& Vector` parameters only read")

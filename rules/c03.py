"""C03 - every draw is a real trajectory state and its statistics describe it (structural clauses)."""
from .facts import path_ends, loc, strip_generics, hir_walk, vt_walk, vt_str
from . import common as K
from . import rel as Rl

LEVEL = ("Static structural conditions: the only writers of NutsTree.draw are the initial state, the leapfrog's Ok state and the merged "
         "sub-tree's draw (R1); every ExtendResult built in extend carries the tree that was *not* extended by a rejected sub-tree, and the "
         "merge is unreachable from a rejected sub-tree (R2); in every Chain::draw the stored state, the returned position and last_info come "
         "from the same transition and draw_count is incremented exactly once (R3); reached_maxdepth=true only on the loop-exit path, depth "
         "is written only as 0 / += 1 (R4); the state pool recycles a buffer only under strong==1 && weak==0, one unsafe block, &mut only via "
         "Rc::get_mut (R5); the dim-0 path returns before any leapfrog (R6). Step-count/index inequalities and exact termination are not decided."
         " Added: energy snapshot (R7); the dot-product kernels reachable from is_turning satisfy the C17 kernel rules (R8)."
         " Added (round 4): the doubling loop may have any shape - every path of one iteration to extend() must have passed tree.depth < maxdepth and the loop is left where that failed (R4 by path enumeration); the reported step count is fed only from the collector of the trajectory (R11)."
         " Added (round 5): every adapt() refreshes the per-draw statistics on every path that returns Ok (R11 every-draw clause)."
         " Added (round 6): the Transformation entry points go through position map, density and gradient map on every path and return their own log-determinant (R12 = C02-R4); transformation_id returns the live id, not a remembered copy (R13 = C02-R15).")
EXPLANATION = "Field-writer inventories (EFF), value provenance (FLOW) and dominance/control-dependence (DOM) on MIR; unsafe inventory on HIR."
TRUSTED = ["rustc nightly MIR/HIR", "nutsfacts extractor", "rules/c03.py"]
TECHNIQUE = "static analysis: field-writer inventory + value provenance + dominance on MIR; unsafe-block inventory on HIR"

TREE = "nuts::NutsTree"


def extend_body(F):
    bs = F.inherent_methods("NutsTree", "extend")
    return bs[0] if bs else None


def r1(F, R):
    R.rule("C03-R1", "writers of NutsTree.draw: constructor from the init state, single-step tree from the leapfrog's Ok payload, merge from the other tree's draw")
    ws = K.field_writers(F, TREE, "draw")
    if not ws:
        R.missing("C03-R1", "writers of NutsTree.draw")
    for (b, bb, st, v, how) in ws:
        site = "%s @%s" % (b.path, loc(st["span"]))
        key = "%s:draw<-%s" % (b.path, how)
        s = vt_str(v)
        if how == "agg" and v[0] == "arg":
            R.ok("C03-R1", key, site, "draw = the state the tree is created from (%s)" % s)
        elif how == "agg" and any(n[0] == "downcast" and n[2] == "Ok" and any(c[0] == "call" and path_ends(c[1], "Hamiltonian::leapfrog") for c in vt_walk(n)) for n in vt_walk(v)):
            R.ok("C03-R1", key, site, "draw = state returned by the leapfrog (Ok payload)")
        elif how == "assign" and v[0] == "field" and v[2] == "draw" and v[1][0] in ("arg", "local") and \
                path_ends((b.local_ty(v[1][1]) or "").replace("&", "").replace("mut ", "").strip(), "NutsTree") and v[1][1] != st["pl"]["l"]:
            R.ok("C03-R1", key, site, "draw = other.draw in the merge")
        else:
            R.bad("C03-R1", key, site, "unexpected writer of NutsTree.draw: %s" % s)
    R.floor("C03-R1", 3)


def r2(F, R):
    R.rule("C03-R2", "in extend(): every ExtendResult::{Ok,Turning,Diverging} carries `self`; arms handling a rejected inner sub-tree (Turning/Diverging/Err of "
                     "the recursive extend, Err/divergence of single_step) return without reaching merge_into; merge_into is called on self with the new sub-tree")
    b = extend_body(F)
    if not b:
        R.missing("C03-R2", "NutsTree::extend")
        return
    for bi, blk in enumerate(b.blocks):
        if blk["cleanup"]:
            continue
        for st in blk["stmts"]:
            if st["k"] == "assign" and st["rv"]["k"] == "agg" and st["rv"]["ak"] == "adt" and path_ends(st["rv"]["adt"], "nuts::ExtendResult"):
                var = st["rv"]["variant"]
                if var == "Err":
                    continue
                op = st["rv"]["ops"][0]
                root = K.root_local(b, op)
                site = "%s @%s" % (b.path, loc(st["span"]))
                n = sum(1 for o in R.obligations if o["rule"] == "C03-R2" and o["key"].startswith("%s:result:%s" % (b.path, var)))
                key = "%s:result:%s#%d" % (b.path, var, n)
                if root == 1:
                    R.ok("C03-R2", key, site, "ExtendResult::%s(self, ..)" % var)
                else:
                    R.bad("C03-R2", key, site, "ExtendResult::%s carries %s instead of self: a rejected/partial sub-tree becomes the trajectory" % (var, vt_str(b.value(op))))
    merges = b.calls_to(lambda c: path_ends(c["path"], "NutsTree::merge_into"))
    inline_merge = False
    if not merges:
        # the merge written in place: the block where self.log_size becomes logaddexp(self.log_size, other.log_size)
        for (wb, wbb, wst, wv, whow) in K.field_writers(F, TREE, "log_size"):
            if wb.path == b.path and whow in ("assign", "call") and any(x[0] == "call" and path_ends(x[1], "logaddexp") for x in vt_walk(wv)):
                merges.append((wbb, wst))
                inline_merge = True
    if len(merges) != 1:
        R.bad("C03-R2", b.path + ":merge", b.path, "expected exactly one merge of the new sub-tree in extend (merge_into call or in-place weight update), found %d" % len(merges))
    # rejected arms must not reach the merge
    for bb, t in b.calls():
        c = t["callee"]
        if "path" not in c:
            continue
        if not (path_ends(c["path"], "NutsTree::extend") or path_ends(c["path"], "NutsTree::single_step")):
            continue
        dl = t["dest"]["l"]
        for bi in b.reach_from(t["target"]):
            tt = b.blocks[bi]["term"]
            if tt["k"] == "switch" and tt.get("enum_place", {}).get("l") == dl and not tt["enum_place"]["p"]:
                for arm in tt["arms"]:
                    if arm["name"] in ("Turning", "Diverging", "Err"):
                        reach = b.reach_from(arm["target"])
                        key = "%s:%s-arm:%s" % (b.path, c["name"], arm["name"])
                        site = "%s @%s" % (b.path, loc(t["span"]))
                        if any(mb in reach for mb, _ in merges):
                            R.bad("C03-R2", key, site, "the %s outcome of %s continues into merge_into: a rejected sub-tree is merged" % (arm["name"], c["name"]))
                        else:
                            R.ok("C03-R2", key, site, "%s outcome returns without merging" % arm["name"])
                break
    for mb, mt in merges:
        if inline_merge:
            recv = K.root_local(b, {"k": "copy", "pl": {"l": mt["pl"]["l"], "p": []}}) if "pl" in mt else K.root_local(b, {"k": "copy", "pl": {"l": mt["dest"]["l"], "p": []}})
            key = b.path + ":merge-args"
            site = "%s @%s" % (b.path, loc(mt["span"]))
            if recv == 1:
                R.ok("C03-R2", key, site, "the merge updates self")
            else:
                R.bad("C03-R2", key, site, "the in-place merge does not update self")
            continue
        recv = K.root_local(b, mt["args"][0])
        other = b.value(mt["args"][2])
        key = b.path + ":merge-args"
        site = "%s @%s" % (b.path, loc(mt["span"]))
        if recv == 1:
            R.ok("C03-R2", key, site, "self.merge_into(.., other, ..)")
        else:
            R.bad("C03-R2", key, site, "merge_into is not called on self")
    R.floor("C03-R2", 8)


def r3(F, R):
    R.rule("C03-R3", "in every impl Chain::draw: self.state is assigned the state returned by the transition, the returned position is written from that "
                     "state, last_info is Some(info) of the same result, draw_count is incremented exactly once; only new/draw/set_position write these fields")
    impls = F.trait_method_impls("chain::Chain", "draw")
    if len(impls) < 2:
        R.missing("C03-R3", "impl Chain::draw x2")
    for b in impls:
        adt = b.parent.get("self_adt")
        site = "%s @%s" % (b.path, b.loc())
        # the transition call: returns Result<(State, info)>
        trans = [(bb, t) for bb, t in b.calls() if "path" in t["callee"] and (path_ends(t["callee"]["path"], "nuts::draw") or t["callee"]["name"] == "mclmc_kernel")]
        if len(trans) != 1:
            R.bad("C03-R3", b.path + ":transition", site, "expected one transition call, found %d" % len(trans))
            continue
        tbb, tt = trans[0]

        def from_transition(v):
            return any(n[0] == "call" and n[3] is tt["callee"] for n in vt_walk(v))
        st_w = [(wb, bb, st, v, how) for (wb, bb, st, v, how) in K.field_writers(F, adt, "state") if wb.path == b.path]
        if len(st_w) == 1 and from_transition(st_w[0][3]):
            R.ok("C03-R3", b.path + ":state", "%s @%s" % (b.path, loc(st_w[0][2]["span"])), "self.state = state returned by the transition")
            state_val = st_w[0][3]
        else:
            R.bad("C03-R3", b.path + ":state", site, "self.state is not assigned (exactly once) from the transition's result: %s" % [vt_str(x[3]) for x in st_w])
            state_val = None
        info_w = [(wb, bb, st, v, how) for (wb, bb, st, v, how) in K.field_writers(F, adt, "last_info") if wb.path == b.path]
        if len(info_w) == 1 and from_transition(info_w[0][3]) and "Some" in vt_str(info_w[0][3]):
            R.ok("C03-R3", b.path + ":last_info", "%s @%s" % (b.path, loc(info_w[0][2]["span"])), "last_info = Some(info of the same transition)")
        else:
            R.bad("C03-R3", b.path + ":last_info", site, "last_info is not Some(info) of the transition: %s" % [vt_str(x[3]) for x in info_w])
        wp = b.calls_to(lambda c: path_ends(c["path"], "State::write_position"))
        okp = False
        for bb, t in wp:
            if from_transition(b.value(t["args"][0])):
                okp = True
        if okp:
            R.ok("C03-R3", b.path + ":position", site, "returned position written from the transition's state")
        else:
            R.bad("C03-R3", b.path + ":position", site, "returned position is not written from the state returned by the transition")
        dc = [(wb, bb, st, v, how) for (wb, bb, st, v, how) in K.field_writers(F, adt, "draw_count") if wb.path == b.path]
        loops = b.natural_loops()
        if len(dc) == 1 and "AddWithOverflow" in vt_str(dc[0][3]) and not any(dc[0][1] in body for body in loops.values()) and b.dominates(tbb, dc[0][1]):
            R.ok("C03-R3", b.path + ":draw_count", "%s @%s" % (b.path, loc(dc[0][2]["span"])), "draw_count += 1 once, after the transition")
        else:
            R.bad("C03-R3", b.path + ":draw_count", site, "draw_count is not incremented exactly once per successful draw")
        # other writers
        for f in ("state", "last_info", "draw_count"):
            for (wb, bb, st, v, how) in K.field_writers(F, adt, f):
                if wb.path == b.path or wb.fn_name == "new" or (f == "state" and wb.fn_name == "set_position"):
                    continue
                if K.is_std_derive(wb):
                    continue
                R.bad("C03-R3", "%s:%s-writer" % (wb.path, f), "%s @%s" % (wb.path, loc(st["span"])), "unexpected writer of chain field %s" % f)
        # the transition starts from self.state
        a1 = [vt_str(b.value(a)) for a in tt["args"]]
        if path_ends(tt["callee"]["path"], "nuts::draw"):
            if any(".state" in x and "self" in x for x in a1):
                R.ok("C03-R3", b.path + ":continuity", site, "the transition starts from self.state")
            else:
                R.bad("C03-R3", b.path + ":continuity", site, "the transition does not start from self.state")
    # extract_stats reads state.point() and last_info
    for b in F.trait_method_impls("SamplerStats", "extract_stats"):
        if not (path_ends(b.parent.get("self_adt"), "chain::NutsChain") or path_ends(b.parent.get("self_adt"), "mclmc::MclmcChain")):
            continue
        fields_read = set()
        for bi, blk in enumerate(b.blocks):
            for st in blk["stmts"]:
                if st["k"] == "assign" and st["rv"]["k"] in ("ref", "use"):
                    pl = st["rv"].get("pl") or (st["rv"]["op"].get("pl") if st["rv"]["op"]["k"] != "const" else None)
                    if pl and pl["l"] == 1:
                        for e in pl["p"]:
                            if isinstance(e, dict) and "f" in e:
                                fields_read.add(e["n"])
                                break
        key = b.path + ":stats-source"
        if {"state", "last_info"} <= fields_read:
            R.ok("C03-R3", key, "%s @%s" % (b.path, b.loc()), "stats read from self.state and self.last_info")
        else:
            R.bad("C03-R3", key, "%s @%s" % (b.path, b.loc()), "extract_stats does not read self.state and self.last_info (reads %s)" % sorted(fields_read))
    R.floor("C03-R3", 10)


def _latch_flag(b, flag, cbb, sw_bb, exit_bb):
    """Flag given as a boolean latch (a local assigned only constants, possibly negated): propagate (value, left-through-loop-exit)
    over the CFG and require value == True exactly for states that passed the loop-exit edge. Returns None (cannot evaluate),
    '' (holds) or a description of the violating state."""
    neg = False
    while flag[0] == "un" and flag[1] == "Not":
        neg = not neg
        flag = flag[2]
    if flag[0] != "local":
        return None
    L = flag[1]
    ds = b.defs().get(L, [])
    vals = {}
    for d in ds:
        if d[0] != "stmt" or d[3]["k"] != "assign" or d[3]["pl"]["p"] or d[3]["rv"]["k"] != "use" or d[3]["rv"]["op"]["k"] != "const":
            return None
        c = d[3]["rv"]["op"]["const"]
        if c.get("v") not in ("true", "false"):
            return None
        vals.setdefault(d[1], []).append(c["v"] == "true")
    succ = b.succ_map()
    states = {0: {(None, False)}}
    work = [0]
    out_states = {}
    while work:
        x = work.pop()
        ins = states.get(x, set())
        outs = set()
        for (v, via) in ins:
            if x in vals:
                v = vals[x][-1]
            outs.add((v, via))
        if out_states.get(x) == outs:
            continue
        out_states[x] = outs
        for y in succ[x]:
            new = set()
            for (v, via) in outs:
                new.add((v, via or (x == sw_bb and y == exit_bb)))
            if not new <= states.get(y, set()):
                states[y] = states.get(y, set()) | new
                work.append(y)
    bad = []
    for (v, via) in out_states.get(cbb, set()):
        if v is None:
            bad.append("flag may be unassigned")
            continue
        val = (not v) if neg else v
        if val and not via:
            bad.append("true on a path that left the loop early")
        if (not val) and via:
            bad.append("false on the loop-exit (maxdepth) path")
    return "; ".join(sorted(set(bad)))


def _vt_root(v):
    while v[0] in ("field", "deref", "ref", "downcast"):
        v = v[1]
    return v[1] if v[0] in ("arg", "local") else None


def r4(F, R):
    R.rule("C03-R4", "SampleInfo.reached_maxdepth = true is produced only on the exit path of the doubling loop whose condition compares the tree depth "
                     "with maxdepth; every return from inside the loop passes false; NutsTree.depth is written only as 0 or += 1")
    callers = [b for b in F.bodies.values() if b.kind != "closure" and b.fn_name != "extend" and b.calls_to(lambda c: path_ends(c["path"], "NutsTree::extend"))]
    for b in callers:
        infos = b.calls_to(lambda c: path_ends(c["path"], "NutsTree::info"))
        loops = b.natural_loops()
        ext = b.calls_to(lambda c: path_ends(c["path"], "NutsTree::extend"))
        main_loops = [(h, body) for h, body in loops.items() if any(bb in body for bb, _ in ext)]
        if not main_loops:
            R.bad("C03-R4", b.path + ":loop", b.path, "no doubling loop found")
            continue
        # the doubling loop is the outermost one: its header dominates the headers of the others (the extra-doublings loop is entered from it)
        outer = [(h_, body_) for (h_, body_) in main_loops if all(b.dominates(h_, h2) for (h2, _b2) in main_loops)]
        h, body = outer[0] if outer else max(main_loops, key=lambda x: len(x[1]))
        # loop condition
        ht = b.blocks[h]["term"]
        cond_ok = False
        exit_edge = None
        # find the switch in the header chain
        cur = h
        for _ in range(4):
            tt = b.blocks[cur]["term"]
            if tt["k"] == "switch":
                v = b.value(tt["discr"])
                from .c01 import cond_fields
                cf = cond_fields(b, tt["discr"])
                if v[0] == "bin" and v[1] in ("Lt", "Gt", "Le", "Ge") and "depth" in cf and "maxdepth" in cf:
                    cond_ok = True
                for a in tt["arms"] + [{"target": tt["otherwise"]}]:
                    if a["target"] not in body:
                        exit_edge = a["target"]
                break
            ss = b.succ_map()[cur]
            if len(ss) != 1:
                break
            cur = ss[0]
        key = b.path + ":loop-cond"
        exit_edges = [exit_edge] if exit_edge is not None else []
        if cond_ok and exit_edge is not None:
            R.ok("C03-R4", key, "%s @%s" % (b.path, loc(ht.get("span") or b.span)), "while tree.depth < maxdepth")
        else:
            # other shapes of the same loop (`loop { match bounds.next(depth) { Stop => break, .. } .. }`): every path of one iteration that
            # reaches extend() has passed `tree.depth < maxdepth`, and the loop is left where that comparison failed
            _depth_vs = lambda sw, val: K.depth_relation(b, sw, val)
            first_ext = [bb for bb, _t in ext if bb in body]
            hits, exits = K.iter_paths(b, h, first_ext, within=body)
            if hits is None or not hits:
                R.bad("C03-R4", key, b.path, "doubling loop condition is not a comparison of tree.depth with maxdepth")
                continue
            unguarded = [cs for (_tb, cs, _p) in hits if not any(_depth_vs(sw, val) == ("Lt", "maxdepth") for (sw, val) in cs)]
            exit_edges = sorted({y for (_x, y, cs) in exits if any(_depth_vs(sw, val) == ("Ge", "maxdepth") for (sw, val) in cs)})
            if unguarded:
                R.bad("C03-R4", key, b.path, "a path of the doubling loop reaches extend() without having passed `tree.depth < maxdepth` (%d of %d paths): "
                      "the tree can grow beyond maxdepth" % (len(unguarded), len(hits)))
                continue
            if not exit_edges:
                R.bad("C03-R4", key, b.path, "the doubling loop has no exit taken when tree.depth >= maxdepth")
                continue
            R.ok("C03-R4", key, "%s @%s" % (b.path, loc(ht.get("span") or b.span)), "every path of an iteration to extend() passes tree.depth < maxdepth (%d paths)" % len(hits))
        after = b.reach_from(exit_edges)
        info_sites = [(bb, t, b.value(t["args"][1])) for (bb, t) in infos]
        # the same struct written in place (info() inlined by hand): SampleInfo { depth: tree.depth, reached_maxdepth: <flag>, .. }
        for bi_, blk_ in enumerate(b.blocks):
            if blk_["cleanup"]:
                continue
            for st_ in blk_["stmts"]:
                if st_["k"] == "assign" and st_["rv"]["k"] == "agg" and st_["rv"].get("ak") == "adt" and path_ends(st_["rv"]["adt"], "nuts::SampleInfo"):
                    d_ = dict(zip(st_["rv"]["fields"], st_["rv"]["ops"]))
                    dv_ = vt_str(b.value(d_["depth"]))
                    if ".depth" in dv_:
                        info_sites.append((bi_, st_, b.value(d_["reached_maxdepth"])))
                    else:
                        R.bad("C03-R4", "%s:sampleinfo-depth" % b.path, "%s @%s" % (b.path, loc(st_["span"])), "SampleInfo.depth is %s, not the depth of the tree" % dv_)
        info_sites.sort(key=lambda x: (x[1].get("span") or {}).get("line", 0))
        for i, (bb, t, flag) in enumerate(info_sites):
            site = "%s @%s" % (b.path, loc(t["span"]))
            key = "%s:info#%d" % (b.path, i)
            is_true = flag[0] == "const" and flag[2] == "true"
            is_false = flag[0] == "const" and flag[2] == "false"
            on_exit = bb in after and bb not in body and not any(bb in b.reach_from(e_bb) and e_bb in body for e_bb, _ in ext if False)
            reachable_from_loop_body_return = any(bb in b.reach_from(t2["target"]) for eb, t2 in ext if t2.get("target") is not None) and bb not in after
            if is_true and on_exit:
                R.ok("C03-R4", key, site, "reached_maxdepth = true on the loop-exit path")
            elif is_false and bb not in after:
                R.ok("C03-R4", key, site, "reached_maxdepth = false on an early return")
            elif is_false and bb in after:
                R.bad("C03-R4", key, site, "the loop-exit path (maxdepth reached) reports reached_maxdepth = false")
            elif is_true:
                R.bad("C03-R4", key, site, "reached_maxdepth = true on a path that left the loop early (turning/divergence/dim 0)")
            else:
                verdict = _latch_flag(b, flag, bb, cur, exit_edge)
                if verdict is None:
                    R.bad("C03-R4", key, site, "reached_maxdepth flag is neither a constant nor a boolean latch the rule can evaluate: %s" % vt_str(flag))
                elif verdict:
                    R.bad("C03-R4", key, site, "reached_maxdepth flag (latch %s): %s" % (vt_str(flag), verdict))
                else:
                    R.ok("C03-R4", key, site, "reached_maxdepth latch is true exactly on paths through the loop-exit edge")
    for (wb, bb, st, v, how) in K.field_writers(F, TREE, "depth"):
        site = "%s @%s" % (wb.path, loc(st["span"]))
        key = "%s:depth<-%s" % (wb.path, how)
        s = vt_str(v)
        if v[0] == "const" and v[2] == "0":
            R.ok("C03-R4", key, site, "depth = 0")
        elif v[0] == "field" and v[1][0] == "bin" and v[1][1] == "AddWithOverflow" and v[1][3][0] == "const" and v[1][3][2] == "1" and \
                v[1][2][0] == "field" and v[1][2][2] == "depth" and K.root_local(wb, {"k": "copy", "pl": {"l": st["pl"]["l"], "p": []}}) == _vt_root(v[1][2]):
            R.ok("C03-R4", key, site, "depth += 1 (the tree's own depth, in the merge)")
        else:
            R.bad("C03-R4", key, site, "unexpected write of NutsTree.depth: %s" % s)
    # SampleInfo is built from the flag parameter
    for ib in F.inherent_methods("NutsTree", "info"):
        for bi, blk in enumerate(ib.blocks):
            for st in blk["stmts"]:
                if st["k"] == "assign" and st["rv"]["k"] == "agg" and st["rv"]["ak"] == "adt" and path_ends(st["rv"]["adt"], "nuts::SampleInfo"):
                    d = dict(zip(st["rv"]["fields"], st["rv"]["ops"]))
                    fv = ib.value(d["reached_maxdepth"])
                    dv = ib.value(d["depth"])
                    key = ib.path + ":sampleinfo"
                    if fv[0] == "arg" and "depth" in vt_str(dv) and "self" in vt_str(dv):
                        R.ok("C03-R4", key, "%s @%s" % (ib.path, loc(st["span"])), "SampleInfo{depth: self.depth, reached_maxdepth: <flag argument>}")
                    else:
                        R.bad("C03-R4", key, "%s @%s" % (ib.path, loc(st["span"])), "SampleInfo is not built from self.depth and the flag argument")
    R.floor("C03-R4", 5)  # loop condition, >=1 info site, two depth writers, SampleInfo construction (a single-exit refactor has fewer info sites)


def r5(F, R):
    R.rule("C03-R5", "state pool: exactly one unsafe block in the workspace (ManuallyDrop::take in State::drop); the push to the free list is controlled by "
                     "Rc::strong_count == 1 && Rc::weak_count == 0 of the same Rc; mutable access to a pooled point only through Rc::get_mut")
    unsafe_sites = []
    for b in F.hir_bodies():
        if not b.hir or K.is_std_derive(b) or b.kind == "closure":
            continue
        for n in hir_walk(b.hir["value"]):
            if n.get("k") == "Block" and n.get("unsafe") and not n["span"].get("exp"):
                unsafe_sites.append((b, n))
        if b.r.get("safety", "Safe").lower().startswith("unsafe"):
            unsafe_sites.append((b, {"span": b.span}))
    for (b, n) in unsafe_sites:
        site = "%s @%s" % (b.path, loc(n["span"]))
        key = "%s:unsafe" % b.path
        inner = [K.callee_of(x) for x in hir_walk(n) if x.get("k") in ("Call", "MethodCall")]
        if b.fn_name == "drop" and path_ends(b.parent.get("self_adt"), "state::State") and all(c and "ManuallyDrop" in c and c.endswith("take") for c in inner if c):
            R.ok("C03-R5", key, site, "unsafe { ManuallyDrop::take(&mut self.inner) } in State::drop")
        else:
            R.bad("C03-R5", key, site, "unsafe block outside the audited State::drop idiom (calls %s)" % inner)
    if not unsafe_sites:
        R.missing("C03-R5", "the audited unsafe block in State::drop")
    # recycle guard
    drops = [b for b in F.trait_method_impls("Drop", "drop") if path_ends(b.parent.get("self_adt"), "state::State")]
    for b in drops:
        pushes = b.calls_to(lambda c: path_ends(c["path"], "Vec::push"))
        if not pushes:
            R.bad("C03-R5", b.path + ":recycle", b.path, "State::drop never returns the buffer to the pool (anchor)")
        for bb, t in pushes:
            rels = Rl.edge_relations(b, bb)
            site = "%s @%s" % (b.path, loc(t["span"]))
            strong = any(o == "Eq" and r is not None and ((l[0] == "call" and path_ends(l[1], "Rc::strong_count") and r[0] == "const" and r[2] == "1") or
                                                          (r[0] == "call" and path_ends(r[1], "Rc::strong_count") and l[0] == "const" and l[2] == "1")) for (o, l, r, _s) in rels)
            weak = any(o == "Eq" and r is not None and ((l[0] == "call" and path_ends(l[1], "Rc::weak_count") and r[0] == "const" and r[2] == "0") or
                                                        (r[0] == "call" and path_ends(r[1], "Rc::weak_count") and l[0] == "const" and l[2] == "0")) for (o, l, r, _s) in rels)
            pushed = K.root_local(b, t["args"][1])
            counted = set()
            for (o, l, r, _s) in rels:
                for x in (l, r):
                    if x is not None and x[0] == "call" and (path_ends(x[1], "Rc::strong_count") or path_ends(x[1], "Rc::weak_count")):
                        for n_ in vt_walk(x[2][0]):
                            if n_[0] == "local":
                                counted.add(n_[1])
            if strong and weak and (pushed in counted or not counted):
                R.ok("C03-R5", b.path + ":recycle", site, "push guarded by strong_count == 1 && weak_count == 0")
            else:
                R.bad("C03-R5", b.path + ":recycle", site, "buffer recycled without the full uniqueness test (strong==1: %s, weak==0: %s): a state that is still referenced can be handed out again" % (strong, weak))
    # forbidden escape hatches
    for b in F.bodies.values():
        if K.is_std_derive(b):
            continue
        for bb, t in b.calls():
            c = t["callee"]
            p = c.get("path", "")
            if any(x in p for x in ("get_mut_unchecked", "Rc::<T>::as_ptr", "Rc::<T, A>::as_ptr", "mem::transmute", "Rc::<T>::from_raw", "Rc::<T, A>::from_raw", "Rc::<T, A>::into_raw")) and "dynamics" in b.path:
                R.bad("C03-R5", "%s:escape" % b.path, "%s @%s" % (b.path, loc(t["span"])), "raw access to a pooled Rc: %s" % p)
    gm = [b for b in F.inherent_methods("state::State", "try_point_mut")]
    for b in gm:
        if b.calls_to(lambda c: path_ends(c["path"], "Rc::get_mut")):
            R.ok("C03-R5", b.path + ":get_mut", "%s @%s" % (b.path, b.loc()), "&mut Point only through Rc::get_mut")
        else:
            R.bad("C03-R5", b.path + ":get_mut", "%s @%s" % (b.path, b.loc()), "try_point_mut does not use Rc::get_mut")
    R.floor("C03-R5", 3)


def r6(F, R):
    R.rule("C03-R6", "dimension-0 models: the draw is the initial state, registered with the collector, returned before any extend/leapfrog, flag false")
    callers = [b for b in F.bodies.values() if b.kind != "closure" and b.fn_name != "extend" and b.calls_to(lambda c: path_ends(c["path"], "NutsTree::extend"))]
    for b in callers:
        dims = b.calls_to(lambda c: path_ends(c["path"], "Math::dim"))
        ext = b.calls_to(lambda c: path_ends(c["path"], "NutsTree::extend"))
        good = False
        for bb, t in dims:
            # the switch on dim == 0
            for bi in b.reach_from(t["target"]):
                tt = b.blocks[bi]["term"]
                if tt["k"] == "switch":
                    v = b.value(tt["discr"])
                    if v[0] == "bin" and v[1] == "Eq" and "Math::dim" in vt_str(v) and any(x[0] == "const" and x[2] == "0" for x in v[2:4]):
                        tgt = [a["target"] for a in tt["arms"] if a["val"] != 0] or [tt["otherwise"]]
                        reach = b.reach_from(tgt[0])
                        if not any(eb in reach for eb, _ in ext) and any(b.blocks[r_]["term"]["k"] == "call" and path_ends(b.blocks[r_]["term"]["callee"].get("path", ""), "Collector::register_draw") for r_ in reach):
                            good = True
                    break
        key = b.path + ":dim0"
        if good:
            R.ok("C03-R6", key, "%s @%s" % (b.path, b.loc()), "dim()==0 returns the registered initial state before any extend")
        else:
            R.bad("C03-R6", key, "%s @%s" % (b.path, b.loc()), "no early return for dim()==0 that registers the draw and avoids extend()")
    R.floor("C03-R6", 1)


def snapshot(F, R, rid="C03-R7"):
    """initial_energy is a snapshot of energy() at the start of the trajectory (shared with C01)."""
    from . import eff as E
    R.rule(rid, "energy snapshot: where TransformedPoint.initial_energy is stored from Point::energy(), no write of a field that energy() reads "
                "(read set taken from the body of energy(): kinetic energy, logp, logdet) is reachable after the store in the same function - "
                "energy errors and tree weights of the trajectory are relative to the energy of the start state as it is integrated")
    adt = "transformed_hamiltonian::TransformedPoint"
    en = [b for b in F.trait_method_impls("Point", "energy") if path_ends(b.parent.get("self_adt"), adt)]
    if not en:
        R.missing(rid, "impl Point::energy for TransformedPoint")
        return
    reads = set()
    for blk in en[0].blocks:
        for st in blk["stmts"]:
            if st["k"] == "assign":
                for o in K_rvalue_operands(st["rv"]):
                    if o["k"] in ("copy", "move"):
                        for e in o["pl"]["p"]:
                            if isinstance(e, dict) and "f" in e and e.get("n") and path_ends(e.get("of") or "", adt):
                                reads.add(e["n"])
    if not reads:
        R.missing(rid, "fields read by TransformedPoint::energy")
        return
    n = 0
    for (b, bi, st, v, how) in K.field_writers(F, adt, "initial_energy"):
        if how not in ("assign", "call"):
            continue
        if not any(x[0] == "call" and path_ends(x[1], "Point::energy") for x in vt_walk(v)):
            continue
        n += 1
        site = "%s @%s" % (b.path, loc(st["span"]))
        key = "%s:snapshot" % b.path
        later_blocks = b.reach_strict(bi)
        offenders = []
        # rest of the storing block
        blk = b.blocks[bi]
        todo = []
        if how == "assign":
            idx = blk["stmts"].index(st)
            todo.append((bi, blk["stmts"][idx + 1:], blk["term"]))
        for x in sorted(later_blocks):
            if x == bi and how == "assign":
                todo.append((x, b.blocks[x]["stmts"], b.blocks[x]["term"]))
            elif x != bi:
                todo.append((x, b.blocks[x]["stmts"], b.blocks[x]["term"]))
        for (x, stmts, term) in todo:
            if b.blocks[x]["cleanup"]:
                continue
            for s2 in stmts:
                if s2["k"] == "assign":
                    for f in reads:
                        i = K._place_field(s2["pl"], adt, f)
                        if i is not None and i == len(s2["pl"]["p"]) - 1:
                            offenders.append("%s written at %s" % (f, loc(s2["span"])))
            if term["k"] == "call":
                for f in reads:
                    i = K._place_field(term["dest"], adt, f)
                    if i is not None and i == len(term["dest"]["p"]) - 1:
                        offenders.append("%s written at %s" % (f, loc(term["span"])))
                for (mode, pl, leaf, _scal, _ai) in E.call_effects(F, b, term):
                    if mode == "W" and pl is not None and pl[1] and pl[1][-1] in reads:
                        offenders.append("%s written by %s at %s" % (pl[1][-1], term["callee"].get("name"), loc(term["span"])))
        if offenders:
            R.bad(rid, key, site, "initial_energy is taken before the point is complete: %s" % "; ".join(sorted(set(offenders))[:4]))
        else:
            R.ok(rid, key, site, "initial_energy = energy() after the last write of %s" % sorted(reads))
    if n == 0:
        R.missing(rid, "store of initial_energy from energy()")


def K_rvalue_operands(rv):
    from .facts import _rvalue_operands
    return _rvalue_operands(rv)



def uturn_kernels(F, R):
    """The U-turn criterion is evaluated by the fused dot-product kernels: they must compute the plain sums (decided by the C17 kernel rules)."""
    from . import c17
    impls = F.trait_method_impls("Hamiltonian", "is_turning")
    cg = F.callgraph()
    reach = cg.reachable([b.path for b in impls]) if impls else set()
    # a kernel is run by `arch.dispatch(Kernel { .. })`: reached where its operand struct is built
    by_adt = {strip_generics(k.parent.get("self_adt") or ""): k for k in c17.kernels(F)}
    ks = []
    for p in sorted(reach):
        rb = F.bodies.get(p)
        if rb is None:
            continue
        for blk in rb.blocks:
            for st in blk["stmts"]:
                if st["k"] == "assign" and st["rv"]["k"] == "agg" and st["rv"].get("ak") == "adt":
                    k = by_adt.get(strip_generics(st["rv"]["adt"]))
                    if k is not None and k not in ks:
                        ks.append(k)
    if not ks:
        R.missing("C03-R8", "SIMD kernels reachable from Hamiltonian::is_turning")
        return

    def go(sub):
        for k in ks:
            c17.check_kernel(F, sub, k)
    names = ", ".join(sorted((k.parent.get("self_adt") or k.path).split("::")[-1] for k in ks))
    K.borrow_rule(R, go, "C03-R8", "the dot-product kernels reachable from is_turning (%s) compute the element-by-element sums: lanes, tails and accumulators per C17-K1..K6, "
                  "so `doubling stops exactly when the criterion holds` is about the criterion and not about a mangled sum" % names[:300])
    R.floor("C03-R8", 4)


def energy_baseline(F, R, rid="C03-R9"):
    """Within a NUTS trajectory the energy error of every state is measured against the start of the trajectory."""
    R.rule(rid, "NutsTree::single_step passes `start.point().initial_energy()` (the energy recorded when the trajectory was initialised and copied from state "
                "to state) as the energy baseline of Hamiltonian::leapfrog: the divergence test and the tree weights are relative to the trajectory start, "
                "not to the previous state")
    tr = [v for k_, v in F.traits.items() if path_ends(k_, "hamiltonian::Hamiltonian")]
    n = 0
    for b in F.inherent_methods("NutsTree", "single_step"):
        for bb, t in b.calls_to(lambda c: path_ends(c["path"], "Hamiltonian::leapfrog")):
            n += 1
            f64args = [(i, a) for i, a in enumerate(t["args"]) if (a["k"] in ("copy", "move") and (b.local_ty(a["pl"]["l"]) == "f64" or a["pl"].get("ty") == "f64")) or
                       (a["k"] == "const" and (a.get("const") or {}).get("ty") == "f64")]
            key = "%s:baseline" % b.path
            site = "%s @%s" % (b.path, loc(t["span"]))
            # (step_size_factor, energy_baseline, max_energy_error): the middle one
            if len(f64args) != 3:
                R.bad(rid, key, site, "cannot identify the energy baseline argument of leapfrog (%d f64 arguments)" % len(f64args))
                continue
            v = b.value(f64args[1][1])
            if v[0] == "call" and path_ends(v[1], "Point::initial_energy"):
                R.ok(rid, key, site, "baseline = %s" % vt_str(v)[:80])
            else:
                R.bad(rid, key, site, "the energy baseline of the leapfrog is %s, not the initial energy of the trajectory: energy errors (divergence test, "
                      "tree weights) become relative to the previous state" % vt_str(v)[:100])
    if n == 0:
        R.missing(rid, "call of Hamiltonian::leapfrog in NutsTree::single_step")



def r11(F, R):
    R.rule("C03-R11", "the reported step count is that of the draw's trajectory: the statistics field Strategy.last_n_steps is written (apart from the "
                      "constructor's 0) only from a value read off an AcceptanceRateCollector parameter, and every caller of such a writer hands it a "
                      "collector it received itself (the collector that observed the whole trajectory) - never a collector created locally, such as the "
                      "single-step probe of the initial step-size search")
    ADT = "stepsize::adapt::Strategy"
    writers = [w for w in K.field_writers(F, ADT, "last_n_steps")]
    if not writers:
        R.missing("C03-R11", "writers of stepsize Strategy.last_n_steps")
    wfns = {}
    for (b, bb, st, v, how) in writers:
        site = "%s @%s" % (b.path, loc(st["span"]))
        key = "%s:last_n_steps<-%s" % (b.path, how)
        if v[0] == "const":
            R.ok("C03-R11", key, site, "constant %s (constructor)" % v[2])
            continue
        args = [n for n in vt_walk(v) if n[0] == "arg" and "AcceptanceRateCollector" in b.local_ty(n[1])]
        if args:
            R.ok("C03-R11", key, site, "read from the collector parameter `%s`" % args[0][2])
            wfns[strip_generics(b.path)] = (b, args[0][1])
        else:
            R.bad("C03-R11", key, site, "last_n_steps = %s does not come from a collector parameter of this function" % vt_str(v)[:120])
    for wp, (wb, argi) in sorted(wfns.items()):
        ncall = 0
        for x in sorted(F.bodies.values(), key=lambda y: y.path):
            for bb, t in x.calls():
                c = t["callee"]
                if strip_generics(c.get("resolved") or c.get("path", "")) != wp:
                    continue
                ncall += 1
                site = "%s @%s" % (x.path, loc(t["span"]))
                key = "%s:feeds-stats#%d" % (x.path, ncall)
                if argi - 1 >= len(t["args"]):
                    R.bad("C03-R11", key, site, "call without the collector argument")
                    continue
                root = K.root_local(x, t["args"][argi - 1])
                rv = x.value(t["args"][argi - 1])
                from_param = any(n[0] in ("arg", "upvar") for n in vt_walk(rv)) and not any(
                    n[0] == "call" and str(n[1]).endswith("AcceptanceRateCollector::new") for n in vt_walk(rv))
                made_here = any(strip_generics(tt["callee"].get("path", "")).endswith("AcceptanceRateCollector::new") and tt["dest"]["l"] == root for _b2, tt in x.calls())
                if from_param and not made_here and x.parent.get("trait") and path_ends(x.parent["trait"], "AdaptStrategy") and x.fn_name == "adapt":
                    # every draw refreshes the statistics: the call is on every path of adapt() that returns Ok (warm-up or not)
                    from .c05 import agg_blocks
                    oks_ = [o[0] for o in agg_blocks(x, "Result", "Ok")]
                    if oks_ and not all(x.dominates(bb, o) for o in oks_):
                        R.bad("C03-R11", key + ":every-draw", site, "adapt() can return Ok without having refreshed the per-draw statistics (the call does not dominate "
                              "every Ok return): those draws report the step count and acceptance of an earlier trajectory")
                        continue
                if from_param and not made_here:
                    R.ok("C03-R11", key, site, "the statistics are fed from a collector the caller received (%s)" % vt_str(rv)[:80])
                else:
                    R.bad("C03-R11", key, site, "the per-draw statistics (n_steps, acceptance, energy error) are overwritten from a collector created in this function "
                          "(%s): a probe step replaces the numbers of the trajectory that was just sampled" % vt_str(rv)[:80])
        if ncall == 0:
            R.missing("C03-R11", "callers of %s" % wp)
    R.floor("C03-R11", 4)


def run(F, R, config="all"):
    r1(F, R)
    r2(F, R)
    r3(F, R)
    r4(F, R)
    r5(F, R)
    r6(F, R)
    snapshot(F, R)
    uturn_kernels(F, R)
    energy_baseline(F, R)
    r11(F, R)
    # the reported step count is the collector's count: every leapfrog outcome that is part of the draw must be registered (C07-R8 analysis)
    from . import c07
    K.borrow_rule(R, lambda sub: c07.r8(F, sub, rid="C07-R8"), "C03-R10", "every leapfrog step that ends in Ok or Divergence is registered with the collector exactly once, "
                  "so n_steps / Progress.num_steps count the steps that were integrated (decided by the C07-R8 analysis)", only_rules={"C07-R8"})
    from . import c01, c02
    c01.r7(F, R)
    # the next trajectory starts from the returned draw only if stale whitened coordinates are refreshed:
    # every transformation change bumps the id (C02-R5) and initialize_trajectory re-whitens on id change (C02-R7)
    c02.r5(F, R)
    c02.r7(F, R)
    # ... and the re-whitened point carries the log-determinant of the whole transformation: the entry points of every Transformation go through
    # position map and gradient map and answer with `self.logdet()`, on every path (C02-R4 analysis)
    c02.r15(F, R, rid="C03-R13")
    K.borrow_rule(R, lambda sub: c02.r3_r4(F, sub), "C03-R12", "the Transformation entry points (init_from_*, inv_transform_normalize) apply position map, density and "
                  "gradient map of their own type in order on every path and return its log-determinant: the energy baseline of the trajectory after an update is "
                  "taken in the same coordinates as every later point (C02-R4 analysis)", only_rules={"C02-R4"})

"""Tiny parser for the type strings the extractor prints (`a::B<c::D<E>, f64>`, `&'a mut T`, `(A, B)`, `[T]`)."""


def split_top(s, sep=","):
    out = []
    depth = 0
    cur = []
    for ch in s:
        if ch in "<([":
            depth += 1
        elif ch in ">)]":
            depth -= 1
        if ch == sep and depth == 0:
            out.append("".join(cur).strip())
            cur = []
        else:
            cur.append(ch)
    last = "".join(cur).strip()
    if last:
        out.append(last)
    return out


def parse(s):
    """-> (head, [args]) ; head is the path without generic arguments, or '&', '&mut', 'tuple', 'slice', 'array'."""
    s = s.strip()
    if s.startswith("&"):
        r = s[1:].strip()
        if r.startswith("'"):
            r = r.split(" ", 1)[1] if " " in r else r
        if r.startswith("mut "):
            return ("&mut", [parse(r[4:])])
        return ("&", [parse(r)])
    if s.startswith("(") and s.endswith(")"):
        return ("tuple", [parse(x) for x in split_top(s[1:-1])])
    if s.startswith("[") and s.endswith("]"):
        inner = s[1:-1]
        parts = split_top(inner, ";")
        return ("slice" if len(parts) == 1 else "array", [parse(parts[0])])
    if s.startswith("<"):
        # qualified projection `<T as Trait>::Assoc` : opaque
        return (s, [])
    i = s.find("<")
    if i < 0:
        return (s, [])
    # find matching close of the first '<'
    depth = 0
    for j in range(i, len(s)):
        if s[j] == "<":
            depth += 1
        elif s[j] == ">":
            depth -= 1
            if depth == 0:
                break
    head = s[:i]
    args = [parse(x) for x in split_top(s[i + 1:j])]
    rest = s[j + 1:]
    if rest.startswith("::"):
        return (head + rest, args)
    return (head, args)


def show(t):
    h, a = t
    if h in ("&", "&mut"):
        return h + " " + show(a[0]) if h == "&mut" else "&" + show(a[0])
    if h == "tuple":
        return "(" + ", ".join(show(x) for x in a) + ")"
    if h in ("slice", "array"):
        return "[" + show(a[0]) + "]"
    return h + ("<" + ", ".join(show(x) for x in a) + ">" if a else "")


def subst(t, env):
    h, a = t
    if not a and h in env:
        return env[h]
    return (h, [subst(x, env) for x in a])


def walk(t):
    yield t
    for x in t[1]:
        yield from walk(x)

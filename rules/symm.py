"""SYMM: is a scalar function of two f64 parameters symmetric, f(a, b) == f(b, a)?

The body is unfolded into its decision tree: a list of (region, value) leaves, where a region is a conjunction of sign conditions on
polynomials of the parameters (sets over {neg, zero, pos, nan}) and the value a polynomial normal form with transcendental calls as atoms.
The function is symmetric iff the set of leaves is invariant under exchanging the two parameters. Conditions are compared as sign sets
(so `d > 0` with d = a - b and `d < 0` with d = b - a coincide); inside a region that forces a == b the value is rewritten with b := a;
inside a region that forces a polynomial to be NaN, a value that is a non-zero multiple of it is NaN."""
from . import common as K
from . import kernel as KN

ALL = frozenset(("neg", "zero", "pos", "nan"))
OPS = {">": {"pos"}, "<": {"neg"}, "==": {"zero"}, "!=": {"neg", "pos", "nan"}, ">=": {"pos", "zero"}, "<=": {"neg", "zero"}}


def canon_sign(p):
    """Make the leading coefficient positive; return (poly, flipped)."""
    if not p:
        return p, False
    lead = sorted(p.items(), key=lambda x: repr(x[0]))[0]
    if lead[1] < 0:
        return KN.pneg(p), True
    return p, False


def flip(s):
    m = {"neg": "pos", "pos": "neg", "zero": "zero", "nan": "nan"}
    return frozenset(m[x] for x in s)


def norm_abs(p):
    """abs(x) == abs(-x): canonicalise the sign of the argument of abs atoms (recursively)."""
    r = {}
    for m, c in p.items():
        nm = []
        for a in m:
            if a[0] == "call":
                args = []
                for x in a[2]:
                    if KN._is_frozen_poly(x):
                        q = norm_abs(dict(x))
                        if a[1] == "abs":
                            q, _ = canon_sign(q)
                        args.append(KN._freeze(q))
                    else:
                        args.append(x)
                if a[1] in ("max", "min", "hypot"):
                    args = sorted(args, key=repr)      # commutative binary functions
                nm.append(("call", a[1], tuple(args)))
            else:
                nm.append(a)
        nm = tuple(sorted(nm, key=repr))
        v = r.get(nm, 0) + c
        if v == 0:
            r.pop(nm, None)
        else:
            r[nm] = v
    return r


class Tree:
    def __init__(self, body, params):
        self.params = params      # [(binding id, name)] of the two f64 parameters
        self.leaves = []          # ([(poly, signset)], value poly)
        self.notes = []
        ev = KN.Eval()
        for (bid, nm) in params:
            ev.env[bid] = KN.patom(("var", nm))
        self.walk_block(body, [], ev)

    def cond(self, n, ev):
        """-> list of alternatives [(poly, signset)] for cond true (conjunction), or None if not understood"""
        n = K.peel(n)
        if n.get("k") == "Binary" and n["op"] in OPS:
            p = KN.padd(ev.ev(n["a"]), ev.ev(n["b"]), -1)
            return [(p, frozenset(OPS[n["op"]]))]
        if n.get("k") == "Binary" and n["op"] in ("&&", "&"):
            a, b = self.cond(n["a"], ev), self.cond(n["b"], ev)
            return (a + b) if a is not None and b is not None else None
        if n.get("k") == "Unary" and n["op"] == "!":
            a = self.cond(n["a"], ev)
            if a is not None and len(a) == 1:
                return [(a[0][0], ALL - a[0][1])]
            return None
        if n.get("k") == "MethodCall" and n["method"] == "is_nan":
            return [(ev.ev(n["recv"]), frozenset({"nan"}))]
        return None

    def neg(self, c):
        if c is not None and len(c) == 1:
            return [(c[0][0], ALL - c[0][1])]
        return None

    def walk_block(self, n, conds, ev):
        n = K.peel(n)
        if n.get("k") != "Block":
            return self.walk_expr(n, conds, ev)
        ev = self.fork(ev)
        conds = list(conds)
        for st in n.get("stmts", []):
            k = st.get("k")
            if k == "Let":
                ev.stmts([st])
            elif k in ("Semi", "ExprStmt"):
                e = K.peel(st["e"])
                if e.get("k") == "If" and e.get("else") is None:
                    c = self.cond(e["cond"], ev)
                    if c is None:
                        self.notes.append("condition not understood")
                        c = [(KN.patom(("var", "?cond")), frozenset({"pos"}))]
                    returns = self.walk_block(e["then"], conds + c, ev)
                    nc = self.neg(c)
                    if nc is None:
                        self.notes.append("cannot negate a compound condition")
                        nc = []
                    conds = conds + nc
                elif e.get("k") == "Ret":
                    self.leaf(conds, ev.ev(e["e"]))
                    return True
                else:
                    ev.exec(e)
        if n.get("expr") is not None:
            return self.walk_expr(n["expr"], conds, ev)
        return False

    def walk_expr(self, n, conds, ev):
        n = K.peel(n)
        k = n.get("k")
        if k == "If" and n.get("else") is not None:
            c = self.cond(n["cond"], ev)
            if c is None:
                self.notes.append("condition not understood")
                c = [(KN.patom(("var", "?cond")), frozenset({"pos"}))]
            self.walk_block(n["then"], conds + c, ev)
            nc = self.neg(c) or []
            self.walk_block(n["else"], conds + nc, ev)
            return True
        if k == "Block":
            return self.walk_block(n, conds, ev)
        if k == "Ret":
            self.leaf(conds, ev.ev(n["e"]))
            return True
        self.leaf(conds, ev.ev(n))
        return True

    def fork(self, ev):
        e2 = KN.Eval(outer_env=ev.env)
        return e2

    def leaf(self, conds, value):
        self.leaves.append((list(conds), value))


def normal_leaves(tree, swap=False):
    a, b = tree.params[0][1], tree.params[1][1]

    def ren(at):
        if swap and at[0] == "var" and at[1] == a:
            return ("var", b)
        if swap and at[0] == "var" and at[1] == b:
            return ("var", a)
        return at
    out = set()
    for conds, value in tree.leaves:
        region = {}
        for (p, sset) in conds:
            q = norm_abs(KN.prename(p, ren))
            q, fl = canon_sign(q)
            s2 = flip(sset) if fl else sset
            key = KN.pkey(q)
            region[key] = (q, region[key][1] & s2 if key in region else s2)
        if any(not s for (_q, s) in region.values()):
            continue     # infeasible path
        v = norm_abs(KN.prename(value, ren))
        # a == b region: rewrite b := a
        for key, (q, sset) in list(region.items()):
            atoms = sorted(q.items(), key=lambda x: repr(x[0]))
            if sset == frozenset({"zero"}) and len(q) == 2 and all(len(m) == 1 and m[0][0] == "var" for m in q) and sorted(q.values()) == [-1, 1]:
                names = sorted(m[0][1] for m in q)
                keep, drop = names[0], names[1]

                def sub(at, keep=keep, drop=drop):
                    return ("var", keep) if at == ("var", drop) else at
                v = KN.prename(v, sub)
                newreg = {}
                for k2, (q2, s2) in region.items():
                    if k2 == key:
                        newreg[k2] = (q2, s2)
                        continue
                    q3, fl = canon_sign(KN.prename(q2, sub))
                    if not q3:
                        continue
                    newreg[KN.pkey(q3)] = (q3, flip(s2) if fl else s2)
                region = newreg
        # NaN region: a value that is a non-zero multiple of a NaN polynomial is NaN
        for key, (q, sset) in region.items():
            if sset <= frozenset({"nan"}) and v:
                vq, _ = canon_sign(v)
                if KN.pkey(vq) == KN.pkey(q):
                    v = KN.patom(("var", "NaN"))
        reg_key = tuple(sorted((k, tuple(sorted(s))) for k, (_q, s) in region.items()))
        out.add((reg_key, KN.pkey(v)))
    return out


def check_symmetric(body_hir, params):
    """-> (symmetric?, details)"""
    t = Tree(body_hir, params)
    l0 = normal_leaves(t, False)
    l1 = normal_leaves(t, True)
    diff = (l0 - l1) | (l1 - l0)
    return (not diff and not t.notes and bool(l0)), t, l0, l1

"""C11 - controller never deadlocks; traces are complete or an exact prefix (classical static necessary conditions)."""
from collections import defaultdict

from .facts import path_ends, loc, strip_generics, vt_walk, vt_str
from . import common as K
from . import c10 as C10
from . import c12 as C12

LEVEL = ("Classical static necessary conditions for deadlock freedom and complete accounting, decided on the MIR of the sampler: the lock-order graph over "
         "mutex classes (type argument of Mutex<T>, guards tracked from lock() to their drop, calls under a guard expanded through the call graph "
         "including every storage backend) is acyclic (R1); no thread waits on a channel or joins a thread while it holds a mutex guard (R2); every "
         "Sampler request method sends exactly one command and, when the send succeeded, receives exactly one response, and every arm of the "
         "controller's command match reaches the next loop iteration through exactly one response or leaves the loop with an error (R3); abort() drops "
         "the command sender before joining, the controller finalises the trace (consuming all chain handles, hence all mailbox senders) on every path "
         "after the command loop, and the worker leaves its loop on Disconnected and when its trace slot is empty (R4); no try_lock anywhere and finalisation takes every trace slot under a blocking lock (R6); per recorded draw the worker does "
         "exactly one progress update and one record_sample under the trace guard, counts the draw only after a successful record and stops at "
         "num_tune + num_draws (R5). Absence of deadlock over all interleavings is not decided (that needs a protocol model, a different technique)."
         " Added: the response of a request is awaited with the blocking recv (R3)."
         " Added (round 4): the per-draw progress update is applied to the shared counters behind their mutex (R5); inside its command loop the controller waits only in recv_timeout, response sends and locks (R9)."
         " Added (round 5): no draw without a test of the draw budget, the first one included (R10; decided F15); the result of forwarding Pause / Resume to a chain is never propagated or unwrapped in the controller (R11); a chain that found a starting point runs (R12 = C13-R3 analysis)."
         " Added (round 6): only finalisation empties a chain's trace slot (R13); every non-empty sample buffer is handed out independent of earlier flushes (R14 = C15-R5); the trace's diverging flag is `divergence info present` (R15 = C16-R4 clause).")
EXPLANATION = ("Guard-liveness dataflow on MIR (lock call -> guard local -> drop terminator), lock-class edges closed over the call graph, blocking-call "
               "table, dominance / per-path call counting on the request methods, the controller loop and the worker loop; positive-control crate for "
               "the zero-expected lock rules.")
TRUSTED = ["rustc nightly MIR (drop elaboration at mir-opt-level 0)", "nutsfacts extractor", "rules/c11.py",
           "std::sync::mpsc / Mutex / thread::JoinHandle semantics; rayon::scope_fifo joins its jobs"]
TECHNIQUE = "static analysis: lock-order graph + no-wait-under-lock + rendezvous pairing by path counting on MIR"

BLOCKING = ("Receiver::recv", "Receiver::recv_timeout", "SyncSender::send", "JoinHandle::join", "Condvar::wait", "Barrier::wait", "thread::park")


def lock_calls(b):
    out = []
    for bb, t in b.calls():
        p = strip_generics(t["callee"].get("path", ""))
        if p.endswith(("sync::Mutex::lock", "sync::Mutex::try_lock", "sync::RwLock::write", "sync::RwLock::read", "sync::Mutex::blocking_lock")) and ("std::" in p or "tokio::" in p):
            g = t["callee"].get("gargs") or []
            cls = g[0] if g else "?"
            out.append((bb, t, ("tokio:" if "tokio" in p else "") + cls))
    return out


def guard_local(b, t):
    """Follow the lock result through expect/unwrap/map_err/context/`?` to the local that owns the guard."""
    l = t["dest"]["l"]
    for _ in range(8):
        ty = b.local_ty(l)
        if "MutexGuard<" in ty and not ty.startswith("std::result::Result") and not ty.startswith("std::ops::ControlFlow"):
            return l
        nxt = None
        for bi, blk in enumerate(b.blocks):
            tt = blk["term"]
            if tt["k"] == "call" and any(a["k"] in ("copy", "move") and a["pl"]["l"] == l and not a["pl"]["p"] for a in tt["args"]):
                nxt = tt["dest"]["l"]
            for st in blk["stmts"]:
                if st["k"] == "assign" and st["rv"]["k"] == "use" and st["rv"]["op"]["k"] in ("copy", "move") and st["rv"]["op"]["pl"]["l"] == l:
                    nxt = st["pl"]["l"]
        if nxt is None:
            return None
        l = nxt
    return None


def live_blocks(b, def_bb, g, skip_def_term=True, depth=0):
    """Blocks executed while guard local g may be live: forward from its definition until its drop / move-out."""
    succ = b.succ_map()
    seen = set()
    st = [def_bb]
    while st:
        x = st.pop()
        if x in seen:
            continue
        seen.add(x)
        t = b.blocks[x]["term"]
        if x != def_bb or not skip_def_term:
            # the guard moved as a whole into another local (`drop(guard)` goes through a temporary): that local owns it from here
            mv = [s_["pl"]["l"] for s_ in b.blocks[x]["stmts"] if s_["k"] == "assign" and not s_["pl"]["p"] and s_["rv"]["k"] == "use" and
                  s_["rv"]["op"]["k"] == "move" and s_["rv"]["op"]["pl"]["l"] == g and not s_["rv"]["op"]["pl"]["p"]]
            if mv and depth < 4:
                seen |= live_blocks(b, x, mv[0], skip_def_term=False, depth=depth + 1)
                continue
        if t["k"] == "drop" and t["pl"]["l"] == g and not t["pl"]["p"] and (x != def_bb or not skip_def_term):
            continue
        if t["k"] == "call" and (x != def_bb or not skip_def_term) and any(a["k"] == "move" and a["pl"]["l"] == g and not a["pl"]["p"] for a in t["args"]):
            continue  # guard moved into a call (e.g. mem::drop)
        if t["k"] == "return":
            continue
        for y in succ[x]:
            st.append(y)
    return seen


def fn_locks(F):
    """fn path -> set of lock classes it may acquire (transitively)."""
    cache = F.__dict__.get("_fn_locks")
    if cache is not None:
        return cache
    direct = {}
    for p, b in F.bodies.items():
        direct[p] = {c for _bb, _t, c in lock_calls(b)}
    cg = F.callgraph()
    res = {p: set(v) for p, v in direct.items()}
    changed = True
    while changed:
        changed = False
        for p in res:
            for q in cg.edges.get(p, ()):
                if q in res and not res[q] <= res[p]:
                    res[p] |= res[q]
                    changed = True
    F.__dict__["_fn_locks"] = res
    return res


def fn_blocks(F):
    """fn path -> set of blocking callee names it may reach (transitively)."""
    cache = F.__dict__.get("_fn_blocks")
    if cache is not None:
        return cache
    direct = {}
    for p, b in F.bodies.items():
        s = set()
        for bb, t in b.calls():
            q = strip_generics(t["callee"].get("path", ""))
            if q.endswith(BLOCKING):
                s.add(q.split("::")[-2] + "::" + q.split("::")[-1])
        direct[p] = s
    cg = F.callgraph()
    res = {p: set(v) for p, v in direct.items()}
    changed = True
    while changed:
        changed = False
        for p in res:
            for q in cg.edges.get(p, ()):
                if q in res and not res[q] <= res[p]:
                    res[p] |= res[q]
                    changed = True
    F.__dict__["_fn_blocks"] = res
    return res


def callee_targets(F, t):
    c = t["callee"]
    if "path" not in c:
        return []
    tgt = c.get("resolved") or c["path"]
    out = [tgt] if tgt in F.bodies else []
    out += [x for x in c.get("closures", []) if x in F.bodies]
    if not out and c.get("trait") and not c.get("resolved"):
        for b in F.bodies.values():
            p = b.parent
            if b.kind == "method" and p.get("trait") and strip_generics(p["trait"]) == strip_generics(c["trait"]) and p.get("fn_name") == c["name"]:
                out.append(b.path)
    return out


def lock_analysis(F):
    """-> (sites, edges, waits). sites: [(body, bb, term, class, guard, live)], edges: {(c1, c2): [where]}, waits: [(body, bb, class, what)]"""
    sites = []
    edges = defaultdict(list)
    waits = []
    locks_of = fn_locks(F)
    blocks_of = fn_blocks(F)
    for b in F.bodies.values():
        for bb, t, cls in lock_calls(b):
            g = guard_local(b, t)
            if g is None:
                # coroutine / unusual shape: conservatively live until the function returns
                live = b.reach_from(bb)
            else:
                live = live_blocks(b, bb, g)
            sites.append((b, bb, t, cls, g, live))
            for x in sorted(live):
                tt = b.blocks[x]["term"]
                if tt["k"] != "call" or x == bb and tt is t:
                    continue
                q = strip_generics(tt["callee"].get("path", ""))
                where = "%s @%s" % (b.path, loc(tt["span"]))
                for (_bb2, t2, c2) in lock_calls(b):
                    if t2 is tt and tt is not t:
                        edges[(cls, c2)].append(where)
                if q.endswith(BLOCKING):
                    waits.append((b, x, cls, q.split("::")[-2] + "::" + q.split("::")[-1], where))
                for tgt in callee_targets(F, tt):
                    for c2 in locks_of.get(tgt, ()):
                        edges[(cls, c2)].append(where + " -> " + tgt.split("::")[-1])
                    for w in blocks_of.get(tgt, ()):
                        waits.append((b, x, cls, w + " (inside %s)" % tgt.split("::")[-1], where))
    return sites, edges, waits


def find_cycles(edges):
    g = defaultdict(set)
    for (a, b2) in edges:
        g[a].add(b2)
    cycles = []
    for start in list(g):
        st = [(start, [start])]
        while st:
            x, path = st.pop()
            for y in g.get(x, ()):
                if y == start:
                    cyc = path + [y]
                    key = tuple(sorted(set(cyc)))
                    if key not in [tuple(sorted(set(c))) for c in cycles]:
                        cycles.append(cyc)
                elif y not in path and len(path) < 8:
                    st.append((y, path + [y]))
    return cycles


def r1_r2(F, R, P):
    R.rule("C11-R1", "lock-order graph over mutex classes (edges: class acquired, directly or through any callee, while a guard of another class is live) is acyclic; "
                     "re-acquiring the same class while it is held is a self-deadlock")
    R.rule("C11-R2", "no blocking channel operation or thread join (directly or through a callee) while a mutex guard is live")
    sites, edges, waits = lock_analysis(F)
    for (b, bb, t, cls, g, live) in sites:
        R.ok("C11-R1", "%s:lock:%s" % (b.path, cls), "%s @%s" % (b.path, loc(t["span"])), "lock of class %s, guard %s live over %d blocks" % (
            cls, ("_%d" % g) if g is not None else "(untracked: assumed live to the end of the function)", len(live)))
    for (a, c), wh in sorted(edges.items()):
        if a == c:
            R.bad("C11-R1", "self:%s" % a, wh[0], "mutex class %s is acquired again while a guard of the same class is live (self-deadlock with std::sync::Mutex)" % a)
        else:
            R.ok("C11-R1", "edge:%s->%s" % (a, c), wh[0], "%s held while %s is acquired (%d sites)" % (a, c, len(wh)))
    for cyc in find_cycles({k: v for k, v in edges.items() if k[0] != k[1]}):
        R.bad("C11-R1", "cycle:" + "->".join(cyc), edges[(cyc[0], cyc[1])][0], "lock-order cycle %s: two threads taking these locks in opposite order deadlock" % " -> ".join(cyc))
    for (b, x, cls, what, where) in waits:
        R.bad("C11-R2", "%s:%s:%s" % (b.path, cls, what.split(" ")[0]), where, "%s while a guard of %s is live: the peer may need that lock to make progress" % (what, cls))
    nblock = sum(1 for b in F.bodies.values() for bb, t in b.calls() if strip_generics(t["callee"].get("path", "")).endswith(BLOCKING))
    R.ok("C11-R2", "scan", "library crates", "%d lock sites, %d blocking channel/join call sites, %d of them under a live guard" % (len(sites), nblock, len(waits)))
    # positive control
    ps, pe, pw = lock_analysis(P)
    pc = find_cycles({k: v for k, v in pe.items() if k[0] != k[1]})
    if not pc or not any("c11_recv_under_lock" in b.path for (b, _x, _c, _w, _wh) in pw):
        R.bad("C11-R1", "positive-control", "fixtures/positive", "matcher failed on planted constructs: cycles %s, waits %s" % (pc, [(b.path, w) for (b, _x, _c, w, _wh) in pw]))
    else:
        R.ok("C11-R1", "positive-control", "fixtures/positive", "planted A/B lock-order cycle and recv-under-lock are reported")
    R.floor("C11-R1", 8)


def r3(F, R):
    R.rule("C11-R3", "request/response pairing: each Sampler::{pause,resume,flush,inspect,progress} sends exactly one command on every path and receives exactly "
                     "one response, after the send, before it returns Ok; in the controller every command arm reaches the next iteration through exactly one "
                     "responses_tx.send (other paths leave the loop)")
    for m in ("pause", "resume", "flush", "inspect", "progress"):
        bs = F.inherent_methods("sampler::Sampler", m)
        if len(bs) != 1:
            R.missing("C11-R3", "Sampler::%s" % m)
            continue
        b = bs[0]
        sw = {}
        rw = {}
        timed = []
        for bb, t in b.calls():
            p = strip_generics(t["callee"].get("path", ""))
            if p.endswith("SyncSender::send") or p.endswith("Sender::send"):
                sw[bb] = sw.get(bb, 0) + 1
            if p.endswith("Receiver::recv"):
                rw[bb] = rw.get(bb, 0) + 1
            if p.endswith(("Receiver::recv_timeout", "Receiver::try_recv", "Receiver::recv_deadline")):
                timed.append(loc(t["span"]))
        key = "Sampler::%s" % m
        site = "%s @%s" % (b.path, b.loc())
        rs = K.path_count_range(b, sw)
        rr = K.path_count_range(b, rw)
        from .c05 import agg_blocks
        oks = [x[0] for x in agg_blocks(b, "Result", "Ok")]
        ok_dom = oks and all(any(b.dominates(r0, o) for r0 in rw) for o in oks) and all(any(b.dominates(s0, r0) for s0 in sw) for r0 in rw)
        if oks and rw and sw and not ok_dom:
            # the same on feasible paths (a shared request helper returns early with Err: its join with the normal path is not dominated by the recv,
            # but the path through that join to the Ok return is infeasible - `?` of an Err breaks)
            ok_dom = not (set(oks) & b.reach_feasible(0, avoid=sorted(rw))) and not (set(rw) & b.reach_feasible(0, avoid=sorted(sw)))
        if timed:
            R.bad("C11-R3", key, site, "the response is awaited with a bounded wait (%s): after a timeout the controller is still blocked handing over that response, "
                  "so every later request (and abort) blocks forever - the rendezvous needs the blocking recv()" % ", ".join(timed))
        elif rs == (1, 1) and rr is not None and rr[1] == 1 and ok_dom:
            R.ok("C11-R3", key, site, "one send on every path; one recv after it dominates the Ok return")
        else:
            R.bad("C11-R3", key, site, "sends per path %s, receives per path %s, Ok return dominated by recv after send: %s (a request without its response, or a "
                  "response nobody asked for, blocks the next rendezvous forever)" % (rs, rr, bool(ok_dom)))
    cl = C12.controller_loop(F)
    ca = C12.command_arms(cl) if cl is not None else None
    if ca is None:
        R.missing("C11-R3", "controller command loop")
    else:
        arms, hdr, rbb = ca
        sw = {}
        for bb, t in cl.calls():
            if strip_generics(t["callee"].get("path", "")).endswith("SyncSender::send"):
                sw[bb] = sw.get(bb, 0) + 1
        for cmd, tgt in sorted(arms.items()):
            if cmd in ("Timeout", "Disconnected"):
                continue
            rng_ = K.path_count_range(cl, sw, tgt, targets=[hdr])
            key = "controller:%s" % cmd
            site = "%s @%s" % (cl.path, loc(cl.blocks[tgt]["term"].get("span") or cl.span))
            if rng_ == (1, 1):
                R.ok("C11-R3", key, site, "arm %s answers exactly once before the next iteration" % cmd)
            else:
                R.bad("C11-R3", key, site, "arm %s sends %s responses on its way back to the loop head: the requesting Sampler method blocks forever (0) or the next request "
                      "reads a stale response (2)" % (cmd, rng_))
        for cmd in ("Timeout",):
            if cmd in arms:
                rng_ = K.path_count_range(cl, sw, arms[cmd], targets=[hdr])
                if rng_ and rng_[1] > 0:
                    R.bad("C11-R3", "controller:%s" % cmd, cl.path, "a response is sent without a request (on timeout)")
                else:
                    R.ok("C11-R3", "controller:%s" % cmd, cl.path, "no response without request")
    R.floor("C11-R3", 10)


def r4(F, R):
    R.rule("C11-R4", "shutdown: abort() drops the command sender before JoinHandle::join; after the controller's command loop every path to the closure's return "
                     "passes ChainProcess::finalize_many, which receives the vector of chain handles by value; the worker's loop exits on Disconnected and on an "
                     "empty trace slot; the controller loop returns on Disconnected")
    ab = F.inherent_methods("sampler::Sampler", "abort")
    if len(ab) != 1:
        R.missing("C11-R4", "Sampler::abort")
    else:
        b = ab[0]
        joins = b.calls_to(lambda c: strip_generics(c["path"]).endswith("JoinHandle::join"))
        drops = []
        for bb, t in b.calls():
            if strip_generics(t["callee"].get("path", "")).endswith("mem::drop"):
                v = b.value(t["args"][0])
                if any(n[0] == "field" and n[2] == "commands" for n in vt_walk(v)):
                    drops.append(bb)
        for bi, blk in enumerate(b.blocks):
            tt = blk["term"]
            if tt["k"] == "drop" and any(isinstance(e, dict) and e.get("n") == "commands" for e in tt["pl"]["p"]):
                drops.append(bi)
        site = "%s @%s" % (b.path, b.loc())
        if len(joins) == 1 and drops and any(b.dominates(d, joins[0][0]) for d in drops):
            R.ok("C11-R4", "abort:drop-before-join", site, "command sender dropped before join")
        else:
            R.bad("C11-R4", "abort:drop-before-join", site, "JoinHandle::join is not dominated by the drop of the command sender: the controller never sees Disconnected and "
                  "abort() waits forever for a running sampler")
    cs = C10.controller_scope(F)
    if cs is None:
        R.missing("C11-R4", "controller scope closure")
    else:
        cl = C12.controller_loop(F)
        fm = cs.calls_to(lambda c: path_ends(c["path"], "ChainProcess::finalize_many"))
        ml = [(bb, t) for bb, t in cs.calls() if cl is not None and (t["callee"].get("resolved") or t["callee"].get("path")) == cl.path]
        site = "%s @%s" % (cs.path, cs.loc())
        if not ml:
            R.bad("C11-R4", "controller:finalize", site, "call of the command loop closure not found")
        else:
            w = {}
            for bb, t in fm:
                w[bb] = w.get(bb, 0) + 1
            after = cs.blocks[ml[0][0]]["term"].get("target")
            rng_ = K.path_count_range(cs, w, after)
            if rng_ is not None and rng_[0] >= 1:
                R.ok("C11-R4", "controller:finalize", site, "finalize_many on every path after the command loop (%s)" % (rng_,))
            else:
                R.bad("C11-R4", "controller:finalize", site, "a path from the end of the command loop to the closure's return skips finalize_many (%s): traces are lost and paused "
                      "workers are never woken" % (rng_,))
        for bb, t in fm:
            # whichever position the vector of chain handles has in the argument list
            ty = ""
            moved = False
            for a_ in t["args"]:
                if a_["k"] in ("copy", "move"):
                    ty_ = cs.local_ty(K.root_local(cs, a_)) or ""
                    if ty_.startswith("std::vec::Vec<sampler::ChainProcess"):
                        ty = ty_
                        moved = a_["k"] == "move"
            if moved:
                R.ok("C11-R4", "controller:finalize-consumes#%d" % bb, "%s @%s" % (cs.path, loc(t["span"])), "finalize_many takes the chain handles by value (all mailbox senders dropped)")
            else:
                R.bad("C11-R4", "controller:finalize-consumes#%d" % bb, "%s @%s" % (cs.path, loc(t["span"])), "finalize_many does not consume the chain handles (%s)" % ty)
        if cl is not None:
            ca = C12.command_arms(cl)
            if ca and "Disconnected" in ca[0]:
                arms, hdr, rbb = ca
                if hdr in cl.reach_from(arms["Disconnected"]):
                    R.bad("C11-R4", "controller:disconnected", cl.path, "the controller keeps looping after the Sampler handle is gone")
                else:
                    R.ok("C11-R4", "controller:disconnected", cl.path, "Disconnected leaves the command loop")
            else:
                R.bad("C11-R4", "controller:disconnected", cl.path, "no Disconnected arm in the controller")
    w = C10.worker_body(F)
    if w is None:
        R.missing("C11-R4", "worker closure")
    else:
        mb = C12.mailbox(F, w)
        D = C12.draw_block(w)
        if mb and D is not None:
            msg, head, out, tr = mb
            if "Disconnected" in out and head not in K.reach_feasible(w, out["Disconnected"]):
                R.ok("C11-R4", "worker:disconnected", w.path, "worker leaves its loop on Disconnected")
            else:
                R.bad("C11-R4", "worker:disconnected", w.path, "worker does not leave its loop on Disconnected")
            # empty trace slot -> break
            found = False
            for bi, blk in enumerate(w.blocks):
                tt = blk["term"]
                if tt["k"] == "switch" and "enum_place" in tt and bi in w.reach_from(D):
                    ty = w.local_ty(tt["enum_place"]["l"])
                    if ty.startswith("std::option::Option<&mut") and "ChainStorage" in ty:
                        none_t = tt["otherwise"] if all(a.get("name") == "Some" for a in tt["arms"]) else next((a["target"] for a in tt["arms"] if a.get("name") == "None"), None)
                        if none_t is not None:
                            found = True
                            if head in w.reach_from(none_t):
                                R.bad("C11-R4", "worker:trace-none", w.path, "worker keeps sampling after its trace slot was taken")
                            else:
                                R.ok("C11-R4", "worker:trace-none", w.path, "worker leaves its loop when its trace slot is empty")
            if not found:
                R.bad("C11-R4", "worker:trace-none", w.path, "no test of the trace slot after the draw")
    R.floor("C11-R4", 6)


def r5(F, R):
    R.rule("C11-R5", "accounting: on every path from a computed draw back to the loop head there is exactly one ChainProgress::update and one record_sample, both while "
                     "the trace guard is live; the draw counter is incremented only after the record succeeded; the loop leaves when the counter equals "
                     "hint_num_tune() + hint_num_draws()")
    w = C10.worker_body(F)
    if w is None:
        R.missing("C11-R5", "worker closure")
        return
    mb = C12.mailbox(F, w)
    D = C12.draw_block(w)
    if mb is None or D is None:
        R.missing("C11-R5", "mailbox / draw")
        return
    msg, head, out, tr = mb
    after = w.blocks[D]["term"].get("target")
    site = "%s @%s" % (w.path, w.loc())
    upd = {}
    rec = {}
    for bb, t in w.calls():
        p = strip_generics(t["callee"].get("path", ""))
        if p.endswith("ChainProgress::update"):
            upd[bb] = upd.get(bb, 0) + 1
        if p.endswith("ChainStorage::record_sample"):
            rec[bb] = rec.get(bb, 0) + 1
    ru = K.path_count_range(w, upd, after, targets=[head])
    if ru == (1, 1):
        R.ok("C11-R5", "worker:update-per-draw", site, "one progress update per recorded draw")
    else:
        R.bad("C11-R5", "worker:update-per-draw", site, "progress updates per drawn iteration: %s (progress counters disagree with the trace)" % (ru,))
    # the counters that are updated are the shared ones (what Sampler::progress() reads), not a private copy published later
    for bb in sorted(upd):
        t = w.blocks[bb]["term"]
        rv = w.value(t["args"][0]) if t["args"] else ("unknown",)
        shared = any(n[0] == "call" and strip_generics(n[1]).endswith("Mutex::lock") for n in vt_walk(rv)) or \
            "MutexGuard<" in w.local_ty(K.root_local(w, t["args"][0]))
        if shared:
            R.ok("C11-R5", "worker:update-shared", "%s @%s" % (w.path, loc(t["span"])), "the per-draw update is applied to the shared progress behind its mutex")
        else:
            R.bad("C11-R5", "worker:update-shared", "%s @%s" % (w.path, loc(t["span"])), "the per-draw update is applied to %s, not to the shared progress behind its mutex: "
                  "progress() lags the recorded draws (e.g. while paused)" % vt_str(rv)[:100])
    # both under the trace guard
    sites = [s for s in lock_analysis(F)[0] if s[0].path == w.path and "ChainStorage" in s[3]]
    live = set().union(*[s[5] for s in sites]) if sites else set()
    for nm, ws in (("update", upd), ("record_sample", rec)):
        if ws and all(bb in live for bb in ws):
            R.ok("C11-R5", "worker:%s-under-trace-guard" % nm, site, "%s runs while the trace guard is held" % nm)
        else:
            R.bad("C11-R5", "worker:%s-under-trace-guard" % nm, site, "%s can run without the trace guard (an inspect/abort could observe progress and trace out of step)" % nm)
    # counter
    cnt = None
    for bi, blk in enumerate(w.blocks):
        for st in blk["stmts"]:
            if st["k"] == "assign" and not st["pl"]["p"] and w.local_name(st["pl"]["l"]) and st["rv"]["k"] == "use":
                v = w.rvalue_value(st["rv"])
                if v[0] == "field" and v[1][0] == "bin" and v[1][1] == "AddWithOverflow" and bi in w.reach_from(after, avoid=[head]):
                    a = v[1][2]
                    if a[0] == "local" and a[1] == st["pl"]["l"] and v[1][3][0] == "const":
                        cnt = (st["pl"]["l"], bi, v[1][3][2])
    if cnt is None:
        # alternative shape: the loop is driven by a `0..total` range iterator: one iteration per recorded draw
        nxt = None
        for bb, t in w.calls():
            if strip_generics(t["callee"].get("path", "")).endswith("Iterator::next") and D in w.reach_from(bb) and bb in w.reach_from(after):
                v = w.value(t["args"][0]) if t["args"] else None
                s_ = vt_str(v) if v else ""
                if "Range" in s_ and "hint_num_tune" in s_ and "hint_num_draws" in s_:
                    nxt = (bb, t)
        if nxt is None:
            R.bad("C11-R5", "worker:counter", site, "no draw counter increment and no `0..hint_num_tune()+hint_num_draws()` range driving the loop")
        else:
            nbb = nxt[0]
            some_t = None
            for bi, blk in enumerate(w.blocks):
                tt = blk["term"]
                if tt["k"] == "switch" and "enum_place" in tt and tt["enum_place"]["l"] == nxt[1]["dest"]["l"]:
                    some_t = next((a["target"] for a in tt["arms"] if a.get("name") == "Some"), None)
            rng2 = K.path_count_range(w, rec, some_t, targets=[nbb]) if some_t is not None else None
            if rng2 == (1, 1):
                R.ok("C11-R5", "worker:counter", site, "loop driven by 0..total: every consumed iteration records exactly one draw")
                R.ok("C11-R5", "worker:stop-at-total", site, "range end = hint_num_tune() + hint_num_draws()")
            else:
                R.bad("C11-R5", "worker:counter", site, "loop driven by 0..total, but an iteration records %s draws (expected exactly one): control commands can use up "
                      "iterations, the run ends with fewer than num_tune + num_draws draws" % (rng2,))
    else:
        l, cbb, step = cnt
        # dominated by the Continue edge of record_sample's `?`
        rb = sorted(rec)
        ok1 = rb and all(w.dominates(r0, cbb) for r0 in rb) and step == "1"
        # no path from record's error return reaches it: error edge returns
        if ok1:
            R.ok("C11-R5", "worker:counter", site, "`%s += 1` after the record" % w.local_name(l))
        else:
            R.bad("C11-R5", "worker:counter", site, "draw counter `%s` is incremented by %s, dominated by the record: %s" % (w.local_name(l), step, bool(ok1)))
        # exit test
        ok2 = False
        for bi, blk in enumerate(w.blocks):
            tt = blk["term"]
            if tt["k"] == "switch" and tt.get("discr_ty") == "bool" and bi in w.reach_from(cbb, avoid=[head]):
                v = w.value(tt["discr"])
                if v[0] == "bin" and v[1] in ("Eq", "Ge"):
                    sides = [v[2], v[3]]
                    if any(s[0] == "local" and s[1] == l for s in sides):
                        other = [s for s in sides if not (s[0] == "local" and s[1] == l)][0]
                        s = vt_str(other)
                        if "hint_num_tune" in s and "hint_num_draws" in s:
                            # the true edge leaves the loop
                            tgt_true = tt["otherwise"] if all(a["val"] == 0 for a in tt["arms"]) else next((a["target"] for a in tt["arms"] if a["val"] != 0), None)
                            if tgt_true is not None and head not in w.reach_from(tgt_true):
                                ok2 = True
        if ok2:
            R.ok("C11-R5", "worker:stop-at-total", site, "loop leaves when the counter reaches hint_num_tune() + hint_num_draws()")
        else:
            R.bad("C11-R5", "worker:stop-at-total", site, "no exit test `counter == hint_num_tune() + hint_num_draws()` after the increment")
    R.floor("C11-R5", 5)


def try_locks(F):
    out = []
    for b in F.bodies.values():
        for bb, t in b.calls():
            p = strip_generics(t["callee"].get("path", ""))
            if p.endswith(("Mutex::try_lock", "RwLock::try_read", "RwLock::try_write", "Mutex::try_lock_owned")):
                out.append((b, bb, t))
    return out


def r6(F, R, P):
    R.rule("C11-R6", "no try_lock on any mutex of the library: whether a trace slot / progress record is seen would depend on what another thread is doing at "
                     "that instant (an abort during a record would silently drop that chain's trace); finalize_many takes every chain's slot under a blocking lock")
    tl = try_locks(F)
    for (b, bb, t) in tl:
        R.bad("C11-R6", "%s:try_lock" % b.path, "%s @%s" % (b.path, loc(t["span"])), "try_lock: the outcome depends on whether another thread holds the lock right now")
    nlocks = sum(len(lock_calls(b)) for b in F.bodies.values())
    R.ok("C11-R6", "scan", "library crates", "%d lock sites, %d of them try_lock" % (nlocks, len(tl)))
    if not any("c11_try_lock_skips" in b.path for (b, _bb, _t) in try_locks(P)):
        R.bad("C11-R6", "positive-control", "fixtures/positive", "matcher does not report the planted try_lock")
    else:
        R.ok("C11-R6", "positive-control", "fixtures/positive", "planted try_lock is reported")
    if "parallel" in C10.features(F):
        fm = F.inherent_methods("ChainProcess", "finalize_many")
        for b in fm:
            bodies = [b] + K.all_closures_of(F, b.path)
            locks = [(x, bb, t, c) for x in bodies for (bb, t, c) in lock_calls(x)]
            takes = [(x, bb, t) for x in bodies for bb, t in x.calls() if strip_generics(t["callee"].get("path", "")).endswith("Option::take")]
            site = "%s @%s" % (b.path, b.loc())
            blocking = [l for l in locks if l[2]["callee"].get("name") == "lock"]
            okk = len(blocking) == 1 and len(takes) == 1 and blocking[0][0].path == takes[0][0].path and blocking[0][0].dominates(blocking[0][1], takes[0][1])
            # the closure runs for every chain: it is the argument of filter_map / map over chains.into_iter()
            if okk:
                R.ok("C11-R6", b.path + ":take-under-lock", site, "each chain's trace slot is taken under a blocking lock")
            else:
                R.bad("C11-R6", b.path + ":take-under-lock", site, "finalize_many does not take every chain's trace slot under a blocking lock (%d blocking locks, %d takes)" % (len(blocking), len(takes)))
    R.floor("C11-R6", 2)


def r8(F, R):
    """Progress counters are functions of the draws reported to them."""
    R.rule("C11-R8", "ChainProgress::update decides whether a draw counts as a (post-warmup) divergence from the Progress value of that very draw: every condition "
                     "guarding a write of a counter reads only the `stats` parameter, not the flags remembered from the previous draw")
    for b in F.inherent_methods("ChainProgress", "update"):
        site = "%s @%s" % (b.path, b.loc())
        spar = [i for i in range(2, b.arg_count + 1) if "Progress" in (b.local_ty(i) or "")]
        n = 0
        bad = []
        for bi, blk in enumerate(b.blocks):
            t = blk["term"]
            if blk["cleanup"] or t["k"] != "switch":
                continue
            # does this switch guard a store into self?
            guarded = False
            for x in range(len(b.blocks)):
                if any(a == bi for (a, _s) in b.control_deps_trans(x)):
                    if any(st["k"] == "assign" and st["pl"]["l"] == 1 and st["pl"]["p"] for st in b.blocks[x]["stmts"]) or \
                       (b.blocks[x]["term"]["k"] == "call" and any(a_["k"] in ("copy", "move") and K.root_local(b, a_) == 1 for a_ in b.blocks[x]["term"]["args"][:1])):
                        guarded = True
            if not guarded:
                continue
            n += 1
            selfreads = set()
            for nd in vt_walk(b.value(t["discr"])):
                if nd[0] == "field":
                    root = nd[1]
                    while root[0] in ("deref", "ref", "field"):
                        root = root[1]
                    if root[0] == "arg" and root[1] == 1:
                        selfreads.add(str(nd[2]))
            selfreads = sorted(selfreads)
            if selfreads:
                bad.append("condition at %s reads self.%s" % (loc(t.get("span")), ", self.".join(selfreads)))
        key = b.path + ":conditions"
        if bad:
            R.bad("C11-R8", key, site, "; ".join(bad) + ": the counters lag one draw behind the trace at a phase boundary")
        elif n:
            R.ok("C11-R8", key, site, "%d guarded counter updates, all decided by the reported draw" % n)
        else:
            R.ok("C11-R8", key, site, "no conditional counter update")
    R.floor("C11-R8", 1)



def r10(F, R):
    R.rule("C11-R10", "no draw beyond the budget, the first one included: in the chain worker the draw call is not reachable from the start of the worker without "
                      "passing a test of the number of draws to make (a comparison involving hint_num_tune() + hint_num_draws(), or the `next()` of a range built "
                      "from it). A loop that compares the counter with the total only after a draw makes one draw too many when the total is 0 - and then never "
                      "stops, because the counter has already passed the total")
    w = C10.worker_body(F)
    if w is None:
        R.missing("C11-R10", "worker closure")
        return
    D = C12.draw_block(w)
    if D is None:
        R.missing("C11-R10", "draw call in the worker")
        return

    def mentions_total(v):
        s_ = vt_str(v)
        return "hint_num_tune" in s_ and "hint_num_draws" in s_
    tests = set()
    for bi, blk in enumerate(w.blocks):
        t = blk["term"]
        if t["k"] == "switch" and t.get("discr_ty") == "bool":
            v = w.value(t["discr"])
            if v[0] == "un" and v[1] == "Not":
                v = v[2]
            if v[0] == "bin" and v[1] in ("Eq", "Ne", "Lt", "Le", "Gt", "Ge") and (mentions_total(v[2]) or mentions_total(v[3])):
                tests.add(bi)
        if t["k"] == "call" and strip_generics(t["callee"].get("path", "")).endswith("Iterator::next") and t["args"] and mentions_total(w.value(t["args"][0])):
            tests.add(bi)
    site = "%s @%s" % (w.path, loc(w.blocks[D]["term"]["span"]))
    if not tests:
        R.bad("C11-R10", "worker:budget-test", site, "no comparison with hint_num_tune() + hint_num_draws() in the worker")
        return
    if D in w.reach_from(0, avoid=sorted(tests), succ_filter=lambda a_, b_: True):
        R.bad("C11-R10", "worker:first-draw-within-budget", site, "the first draw is reachable without any test of the number of draws to make: with "
              "num_tune + num_draws = 0 the chain draws, the counter passes the total, and the run never finishes")
    else:
        R.ok("C11-R10", "worker:first-draw-within-budget", site, "every path to the draw passes a test of the draw budget (%d test sites)" % len(tests))


def r11(F, R):
    R.rule("C11-R11", "a chain that has finished is not a failure of the controller: in the command loop the result of forwarding Pause / Resume to a chain (a send "
                      "into its mailbox, which fails exactly when that chain is already done) is never propagated with `?` nor unwrapped - otherwise a pause() or "
                      "resume() issued after the first chain finished makes the controller leave its loop with an error and cuts the remaining chains short")
    from . import err as E
    cl = C12.controller_loop(F)
    if cl is None:
        R.missing("C11-R11", "controller command loop")
        return
    n = 0
    raw = F.bodies.get(cl.path) or cl      # as written: `chain.pause()` is one fallible call whose result the controller deals with
    for bb, t in raw.calls():
        p_ = strip_generics(t["callee"].get("path", ""))
        if not (p_.endswith(("ChainProcess::pause", "ChainProcess::resume")) or C12._is_op(raw, t, "send:Pause") or C12._is_op(raw, t, "send:Resume")):
            continue
        cl = raw
        n += 1
        site = "%s @%s" % (cl.path, loc(t["span"]))
        key = "controller:forward#%d" % n
        outs = E.classify(cl, t["dest"]["l"]) if not t["dest"]["p"] else []
        kinds = sorted({o.kind for o in outs})
        if any(k in ("propagated", "returned", "panics") for k in kinds):
            R.bad("C11-R11", key, site, "the result of a mailbox send to a chain is %s: a finished chain (receiver gone) takes the controller down" % "/".join(kinds))
        else:
            R.ok("C11-R11", key, site, "mailbox send result: %s" % ("/".join(kinds) or "not a plain local"))
    if n == 0:
        R.missing("C11-R11", "mailbox sends (Pause / Resume) in the controller loop")
    R.floor("C11-R11", 2)


def r9(F, R):
    R.rule("C11-R9", "the controller only waits where it can be woken: inside its command loop (helpers and closures included) the only blocking operations are the "
                     "bounded recv_timeout on the command channel, the rendezvous send of a response and mutex locks - no unbounded Receiver::recv, join, "
                     "Condvar / Barrier wait: a wait for something a finished or finishing chain will never send blocks every later command, abort included")
    cl = C12.controller_loop(F)
    ca = C12.command_arms(cl) if cl is not None else None
    if ca is None:
        R.missing("C11-R9", "controller command loop")
        return
    arms, hdr, rbb = ca
    loops = cl.natural_loops()
    body = loops.get(hdr) or set()
    if not body:
        R.missing("C11-R9", "natural loop of the controller")
        return
    WAITS = ("Receiver::recv", "JoinHandle::join", "Condvar::wait", "Condvar::wait_while", "Barrier::wait", "thread::park", "Receiver::iter", "IntoIter::next")
    bad = []
    blocks_of = fn_blocks(F)
    n = 0
    for bb, t in cl.calls():
        if bb not in body:
            continue
        n += 1
        p = strip_generics(t["callee"].get("path", ""))
        if p.endswith(WAITS) and not p.endswith("recv_timeout"):
            bad.append((bb, t, p.split("::")[-2] + "::" + p.split("::")[-1]))
        for tgt in callee_targets(F, t):
            inner = [w_ for w_ in blocks_of.get(tgt, ()) if w_.endswith(("Receiver::recv", "JoinHandle::join", "Condvar::wait", "Barrier::wait", "thread::park"))]
            if inner:
                bad.append((bb, t, "%s (inside %s)" % (inner[0], tgt.split("::")[-1])))
    for i, (bb, t, what) in enumerate(bad):
        R.bad("C11-R9", "controller:unbounded-wait:%s" % what.split(" ")[0], "%s @%s" % (cl.path, loc(t["span"])), "the controller loop blocks in %s" % what)
    if not bad:
        R.ok("C11-R9", "controller:waits", cl.path, "%d calls in the command loop; the only waits are recv_timeout on the command channel, response sends and locks" % n)



def slot_emptiers(F):
    """Every site that can leave the trace slot (`Mutex<Option<ChainStorage>>`) empty: [(body, block, term_or_stmt, how)]."""
    out = []

    def is_slot(ty):
        ty = str(ty or "")
        return "Option<" in ty and "ChainStorage" in ty and "Mutex" not in ty and "Arc" not in ty
    for b in sorted(F.bodies.values(), key=lambda x: x.path):
        for bi, blk in enumerate(b.blocks):
            if blk["cleanup"]:
                continue
            t = blk["term"]
            if t["k"] == "call" and t["callee"].get("name") in ("take", "replace", "swap", "take_if"):
                tys = [(a.get("pl") or {}).get("ty") or a.get("ty") for a in t["args"]]
                if any(is_slot(x) and str(x).startswith("&mut") for x in tys):
                    out.append((b, bi, t, t["callee"].get("name")))
            for st in blk["stmts"]:
                if st["k"] == "assign" and st["pl"]["p"] and is_slot(st["pl"].get("ty")) and st["rv"]["k"] == "agg" and st["rv"].get("variant") == "None":
                    out.append((b, bi, st, "= None"))
    return out


def r13(F, R, rid="C11-R13"):
    R.rule(rid, "only finalisation empties a chain's trace slot: Option::take / mem::replace / mem::swap / `= None` on the `Option<ChainStorage>` behind the trace "
                "mutex occurs in ChainProcess::finalize_many only. An empty slot is the worker's signal `trace removed by the controller, stop sampling`, and "
                "flush / inspect / finalize skip a chain whose slot is empty: a second emptier ends a running chain silently or drops what a failed chain recorded")
    sites = slot_emptiers(F)
    n_fin = 0
    for (b, bi, x, how) in sites:
        key = "%s:%s" % (b.path, how)
        site = "%s @%s" % (b.path, loc(x["span"]))
        if "finalize" in b.path:
            n_fin += 1
            R.ok(rid, key, site, "slot emptied during finalisation")
        else:
            R.bad(rid, key, site, "the trace slot is emptied (%s) outside finalisation" % how)
    if n_fin == 0:
        R.missing(rid, "the take() of the trace slot in finalize_many")

def run(F, R, config=None):
    P = K.positive_facts()
    r6(F, R, P)
    r1_r2(F, R, P)
    if "parallel" in C10.features(F):
        r3(F, R)
        r4(F, R)
        r5(F, R)
        r8(F, R)
        r9(F, R)
        r10(F, R)
        r11(F, R)
        r13(F, R)
        # "a run that is not aborted records exactly num_tune + num_draws draws per chain": a chain whose starting point was found on a later
        # attempt must not report the earlier rejection as its result (C13-R3 analysis of the retry loop)
        from . import c13
        K.borrow_rule(R, lambda sub: c13.r3(F, sub), "C11-R12", "a chain that found a starting point runs: the retry loop leaves with the remembered error cleared, and "
                      "Ok is returned only by a chain that was built and started (C13-R3 analysis)", only_rules={"C13-R3"})
        # "records exactly num_tune + num_draws draws": what a chain recorded must also leave its buffers - a flush-aware buffer that withholds a
        # non-empty chunk loses the tail of the run (C15-R5 analysis of the Zarr sample buffer)
        from . import c15, c16
        K.borrow_rule(R, lambda sub: c15.r5(F, sub), "C11-R14", "every non-empty sample buffer is handed out when the chain is finalised, independent of earlier flushes "
                      "(C15-R5 analysis: no state behind `&self`, snapshot = whole buffer)", only_rules={"C15-R5"})
        # "the progress counters agree with the trace": Progress.diverging and the trace's `diverging` column are both `divergence info is present`
        K.borrow_rule(R, lambda sub: c16.r4_r5(F, sub, c16.r1_r2_r3(F, sub)), "C11-R15", "the trace's `diverging` flag is set exactly when the draw carries divergence information - the same "
                      "condition ChainProgress::update counts by - whatever the cause of the divergence (C16-R4 analysis of the DivergenceStats conversion)",
                      only_rules={"C16-R4"}, only_keys=lambda k: "DivergenceStats" in k)
        # a Resume that can be lost leaves a chain paused for ever: the run never terminates (C12-R6 analysis of the command channel)
        from . import c12
        K.borrow_rule(R, lambda sub: c12.r6(F, sub), "C11-R7", "no control command for a live chain can be dropped: unbounded mpsc channel, `send` (C12-R6 analysis); a lost Resume "
                      "blocks its chain in recv() for ever while resume() reported success", only_rules={"C12-R6"})
    else:
        R.not_evaluated.append("C11-R3/R4/R5: feature `parallel` off in this configuration")
    R.assume("std::sync::mpsc: recv blocks until a message or disconnection; dropping the last Sender disconnects; sync_channel(0) send is a rendezvous")
    R.assume("rayon::ThreadPool::scope_fifo returns after all spawned jobs returned; the pool has num_cores + 1 threads so the controller always gets one")
    R.assume("user callbacks (ProgressCallback) and Model/Math implementations return")


FEATURE_RULES = {"C11-R3": "parallel", "C11-R4": "parallel", "C11-R5": "parallel", "C11-R7": "parallel", "C11-R8": "parallel", "C11-R9": "parallel", "C11-R10": "parallel", "C11-R11": "parallel", "C11-R12": "parallel", "C11-R13": "parallel", "C11-R14": "parallel", "C11-R15": "parallel"}
CONFIGS = ["all", "default", "zarr", "ndarray"]
SELFTEST = True

"""C13 - failures in any chain surface as errors of the parallel sampler (structural clauses)."""
from .facts import path_ends, loc, strip_generics, hir_walk
from .facts import vt_walk as vt_walk_
from . import common as K
from . import err as E

LEVEL = ("Static error-discipline analysis of the worker closure, the controller closure, ChainProcess/Sampler methods and every "
         "storage backend method: every call returning Result<_, E> with a fault-carrying E is propagated (`?`, map_err/context, "
         "explicit Err arm whose payload reaches the closure's result) - never unwrapped, discarded or swallowed; wait_timeout/abort map "
         "every error arm to an Err value; the same discipline holds on the whole draw path below Chain::draw / set_position (R5, shared with C05-R1), so an unrecoverable density error raised anywhere reaches the worker's `?`. Decides the structural necessary condition; does not execute fault injections, and says "
         "nothing about panics inside user densities or rayon."
         " Added: a rejected starting point leaves the retry loop only under an is_recoverable() == false test (R3); no Result-typed local is assigned and never read outside the confirmed sites (R6)."
         " Added (round 4): no integer / Duration division with a divisor that can be zero and is not guarded (R9); no write-only error accumulator (R10); both with planted positive controls."
         " Added (round 5): unwrapped float-to-integer conversions have a bounded operand (R11); Sampler::abort drains the results channel and carries a chain error into its result (R12; decided F16); the worker returns Ok only behind Model::math and the initialisation loop (R3 ok-after-init)."
         " Added (round 6): no byte offset into a string that is not derived from its character boundaries (R13, positive control); no Err of a function's own making is reachable from a Divergence arm (R14); R11 carries a positive control instead of a floor."
         " Added (round 7): no unguarded unwrap / expect of a value derived from a DivergenceInfo field (R15, positive control).")
EXPLANATION = ("ERR classification of every consumer of a fallible call result in the scope bodies (MIR def-use), with an explicit "
               "table of accepted non-propagating idioms (one reason each); HIR arm analysis of wait_timeout/abort.")
TRUSTED = ["rustc nightly MIR", "nutsfacts extractor", "rules/err.py classification"]
TECHNIQUE = "static analysis: type-directed error-discipline (ERR) classification over MIR def-use + HIR match-arm analysis"

FAULT_MARKERS = ("anyhow::Error", "NutsError", "LogpErr", "::Err", "std::io::Error", "zarrs", "ArrowError", "arrow",
                 "rayon", "tokio", "JoinError", "serde_json", "Box<dyn std::error::Error")
CHANNEL_MARKERS = ("SendError", "RecvError", "TryRecvError", "RecvTimeoutError")

# accepted non-propagating idioms: (role, callee suffix, outcome kind) -> reason
ALLOWED = {
    ("*", "Mutex::lock", "panics"): "PoisonError only exists after another thread already panicked while holding the lock",
    ("worker", "Sender::send", "discarded"): "results receiver gone = controller/user already stopped listening; documented in the source",
    ("controller", "ChainProcess::pause", "discarded"): "mailbox receiver gone = that chain already finished; documented in the source",
    ("controller", "ChainProcess::resume", "discarded"): "mailbox receiver gone = that chain already finished; documented in the source",
    ("controller", "ChainProcess::finalize_many", "discarded-on-error-path"): "best-effort finalisation on the path that already returns the start error",
}


def is_fault(e):
    return any(m in e for m in FAULT_MARKERS)


def is_channel(e):
    return any(m in e for m in CHANNEL_MARKERS)


def scope(F):
    """{body path: role}"""
    out = {}
    cg = F.callgraph()
    for b in F.bodies.values():
        fn = b.parent.get("fn", "")
        sa = b.parent.get("self_adt") or ""
        if b.kind == "closure" and path_ends(fn, "ChainProcess::start"):
            out[b.path] = "worker"
        elif b.kind == "closure" and path_ends(fn, "Sampler::new"):
            out[b.path] = "controller"
        elif path_ends(sa, "sampler::ChainProcess") or path_ends(sa, "sampler::Sampler"):
            if not b.parent.get("trait"):
                out[b.path] = "api"
    roots = []
    for tr in ("ChainStorage", "TraceStorage", "StorageConfig"):
        for b in F.bodies.values():
            if b.parent.get("trait") and path_ends(b.parent["trait"], tr):
                roots.append(b.path)
    for p in cg.reachable(roots):
        b = F.bodies[p]
        if K.is_std_derive(b):
            continue
        if p not in out and (p.startswith("storage::") or p.startswith("<storage::")):
            out[p] = "storage"
    return out


def returns_err_only(b, bb):
    """From block bb on, is every assignment of the return place an Err-like construction?"""
    reach = b.reach_from(bb)
    ok_seen = False
    for r in reach:
        for st in b.blocks[r]["stmts"]:
            if st["k"] == "assign" and st["pl"]["l"] == 0 and st["rv"]["k"] == "agg" and st["rv"].get("variant") == "Ok":
                ok_seen = True
    return not ok_seen


def r1(F, R):
    R.rule("C13-R1", "every fallible call (fault-carrying error type) in the worker, controller, ChainProcess/Sampler methods and storage "
                     "backends is propagated/handled; unwrap/expect/discard only per the explicit ALLOWED table")
    sc = scope(F)
    if not any(r == "worker" for r in sc.values()):
        R.missing("C13-R1", "worker closure (closure of ChainProcess::start)")
    if not any(r == "controller" for r in sc.values()):
        R.missing("C13-R1", "controller closure (closure of Sampler::new)")
    skipped_types = set()
    for p in sorted(sc):
        role = sc[p]
        b = F.bodies[p]
        counts = {}
        for bb, t, kind, e in E.fallible_calls(b):
            c = t["callee"]
            cpath = c.get("path", "indirect")
            ck = E.callee_key(c) if "path" in c else "indirect"
            n = counts.get(ck, 0)
            counts[ck] = n + 1
            if t["dest"]["p"]:
                continue
            if ck in ("FromResidual::from_residual", "Try::branch"):
                continue
            if not (is_fault(e) or is_channel(e) or "PoisonError" in e):
                skipped_types.add(e[:60])
                continue
            if "std::fmt::Error" in e and str(c.get("self_ty") or "").replace("&mut ", "") in ("std::string::String", "String", "alloc::string::String"):
                skipped_types.add("fmt::Error of a write into a String (infallible)")
                continue
            outs = E.classify(b, t["dest"]["l"])
            site = "%s @%s" % (p, loc(t["span"]))
            for o in outs:
                key = "%s:%s#%d:%s" % (p, ck, n, o.kind)
                if o.kind in ("propagated", "returned", "handled", "forwarded", "stored"):
                    R.ok("C13-R1", key, site, "%s -> %s (%s)" % (ck, o.kind, o.detail))
                    continue
                # non-propagating
                allowed = None
                for (arole, asuf, akind), why in ALLOWED.items():
                    if arole not in ("*", role):
                        continue
                    if not path_ends(cpath, asuf):
                        continue
                    if akind == o.kind:
                        allowed = why
                    elif akind == "discarded-on-error-path" and o.kind == "discarded" and t.get("target") is not None and returns_err_only(b, t["target"]):
                        allowed = why
                if "PoisonError" in e and o.kind == "panics":
                    allowed = ALLOWED[("*", "Mutex::lock", "panics")]
                if "PoisonError" in e and o.kind == "discarded" and "unwrap_or_else" in str(o.detail):
                    # `lock().unwrap_or_else(|p| p.into_inner())`: the poison flag is ignored and the guard recovered - no fault is lost,
                    # poisoning only records that another thread panicked (and that panic is reported where it happened)
                    rec = False
                    for _b2, t2 in b.calls():
                        c2 = t2["callee"]
                        if strip_generics(c2.get("path", "")).endswith("Result::unwrap_or_else") and c2.get("closures"):
                            for cp in c2["closures"]:
                                cb2 = F.bodies.get(cp)
                                if cb2 is not None and any(strip_generics(t3["callee"].get("path", "")).endswith("PoisonError::into_inner") for _b3, t3 in cb2.calls()):
                                    rec = True
                    if rec:
                        allowed = "poisoned lock recovered with PoisonError::into_inner"
                if role == "controller" and o.kind == "discarded" and path_ends(cpath, "Sender::send") and "SendError<sampler::ChainCommand>" in e:
                    # ChainProcess::pause / resume written in place: the same send, the same reason
                    allowed = ALLOWED[("controller", "ChainProcess::pause", "discarded")]
                if allowed:
                    R.ok("C13-R1", key, site, "%s %s - accepted idiom: %s" % (ck, o.kind, allowed))
                elif is_channel(e) and o.kind == "discarded" and role not in ("worker", "controller", "api"):
                    R.ok("C13-R1", key, site, "channel error outside the sampler roles")
                else:
                    R.bad("C13-R1", key, site, "%s on a value of type Result<_, %s> from %s: %s" % (o.kind, e[:60], cpath, o.detail))
    R.info("C13-R1", "error types outside the fault filter (listed, not judged): %s" % sorted(skipped_types))
    R.floor("C13-R1", 60)


def _bindings(p):
    out = []
    for n in hir_walk(p):
        if n.get("k") == "Binding":
            out.append((n["id"], n["name"], n.get("ty", "")))
    return out


def _has_wild_err(p):
    """Pattern contains Err(_) (error payload ignored)."""
    for n in hir_walk(p):
        if n.get("k") == "TupleStruct" and n["res"].get("name") == "Err":
            for sp in n["pats"]:
                if sp.get("k") == "Wild":
                    return True
    return False


def r2(F, R):
    R.rule("C13-R2", "wait_timeout and abort: every match arm that binds an error returns it (SamplerWaitResult::Err / Err / resume_unwind); "
                     "no arm ignores an error payload; no catch-all arm")
    for name in ("wait_timeout", "abort"):
        bs = F.inherent_methods("sampler::Sampler", name)
        if not bs:
            R.missing("C13-R2", "Sampler::" + name)
            continue
        b = bs[0]
        matches = [n for n in hir_walk(b.hir["value"]) if n.get("k") == "Match" and n.get("src") == "Normal"]
        if not matches:
            # combinator form: `join().unwrap_or_else(|payload| resume_unwind(payload))` re-raises the panic and returns the inner Result as is
            okc = False
            for bb_, t_ in b.calls():
                c_ = t_["callee"]
                if strip_generics(c_.get("path", "")).endswith("Result::unwrap_or_else") and c_.get("closures"):
                    for cp_ in c_["closures"]:
                        cb_ = F.bodies.get(cp_)
                        if cb_ is None:
                            continue
                        for _b2, t2 in cb_.calls():
                            if strip_generics(t2["callee"].get("path", "")).endswith("resume_unwind") and t2["args"]:
                                v2 = cb_.value(t2["args"][0])
                                while v2[0] in ("ref", "deref", "cast"):
                                    v2 = v2[1]
                                if v2[0] == "arg" and v2[1] >= 2:
                                    okc = True
                    outs = E.classify(b, t_["dest"]["l"])
                    if okc and any(o.kind in ("returned", "propagated") for o in outs):
                        R.ok("C13-R2", "%s:match#0:arm#0" % b.path, "%s @%s" % (b.path, loc(t_["span"])), "panic payload re-raised by resume_unwind, inner result returned as is")
                        R.ok("C13-R2", "%s:match#0:arm#1" % b.path, "%s @%s" % (b.path, loc(t_["span"])), "(same call) Ok(inner) is the return value")
                    else:
                        okc = False
            if not okc:
                R.bad("C13-R2", "%s:no-match" % b.path, b.path, "no match on the result in %s" % name)
        for mi, m in enumerate(matches):
            sty = m.get("scrut_ty", "")
            if "Result<" not in sty:
                continue
            for ai, a in enumerate(m["arms"]):
                site = "%s @%s" % (b.path, loc(a["span"]))
                key = "%s:match#%d:arm#%d" % (b.path, mi, ai)
                if a["pat"].get("k") == "Wild":
                    R.bad("C13-R2", key, site, "catch-all arm swallows unlisted outcomes")
                    continue
                if _has_wild_err(a["pat"]):
                    R.bad("C13-R2", key, site, "arm ignores an error payload (Err(_))")
                    continue
                errb = [(i, n) for (i, n, ty) in _bindings(a["pat"]) if ty.replace("&", "").strip() == "anyhow::Error" or ty.startswith("std::boxed::Box<dyn std::any::Any")]
                if not errb:
                    R.ok("C13-R2", key, site, "arm binds no error")
                    continue
                # the binding must flow into an Err-like constructor that is returned
                ok = False
                for n in hir_walk(a["body"]):
                    if n.get("k") == "Call":
                        f = K.peel(n["f"])
                        cname = f.get("res", {}).get("name") if f.get("k") == "Path" else None
                        if cname in ("Err", "resume_unwind"):
                            used = {K.local_id(x) for arg in n["args"] for x in hir_walk(arg) if x.get("k") == "Path"}
                            if all(i in used for (i, _n) in errb):
                                ok = True
                if ok:
                    R.ok("C13-R2", key, site, "error binding is returned as Err")
                else:
                    R.bad("C13-R2", key, site, "arm binds error %s but does not return it as an Err value" % [n for (_i, n) in errb])
    R.floor("C13-R2", 5)


def Rl_edge(b, x, y):
    """Printable conditions (switch discriminants) under which block x is reached and the edge x->y is taken."""
    out = []
    for (a, _s) in list(b.control_deps_trans(x)) + [(x, y)]:
        tt = b.blocks[a]["term"]
        if tt["k"] == "switch":
            out.append(vt_str_(b.value(tt["discr"])))
            if "enum_place" in tt:
                out.append(vt_str_(b.place_value(tt["enum_place"])))
    return out


def vt_str_(v):
    from .facts import vt_str
    return vt_str(v)


def r3(F, R):
    R.rule("C13-R3", "the worker's retry loop keeps the last set_position error and returns it; the worker's result is sent on the results channel")
    sc = scope(F)
    from . import inline as IN
    workers = [IN.inlined(F, F.bodies[p], IN.sampler_helper) for p, r in sc.items() if r == "worker"]
    sent = False
    for b in workers:
        # the closure whose result (from calling the inner closure) is forwarded to Sender::send
        for bb, t in b.calls():
            c = t["callee"]
            if "path" in c and path_ends(c["path"], "Sender::send") and len(t["args"]) == 2:
                v = b.value(t["args"][1])
                if v[0] == "call" and (path_ends(v[1], "FnMut::call_mut") or path_ends(v[1], "FnOnce::call_once") or path_ends(v[1], "Fn::call")):
                    sent = True
                    R.ok("C13-R3", b.path + ":send-result", "%s @%s" % (b.path, loc(t["span"])), "results.send(sample())")
        for bb, t, kind, e in E.fallible_calls(b):
            c = t["callee"]
            if "path" in c and path_ends(c["path"], "Chain::set_position"):
                outs = E.classify(b, t["dest"]["l"])
                good = [o for o in outs if (o.kind == "handled" and ("return" in o.detail or "branch" in o.detail)) or o.kind in ("propagated", "returned")]
                key = b.path + ":set_position"
                site = "%s @%s" % (b.path, loc(t["span"]))
                if good:
                    R.ok("C13-R3", key, site, "set_position error is kept and returned (%s)" % good[0].detail)
                else:
                    R.bad("C13-R3", key, site, "set_position error does not reach the worker's result: %s" % outs)
    # success is reported only for a chain that could be built and started: every `Ok(())` the worker returns lies behind the construction of
    # the density (Model::math) and an accepted starting point (the set_position of the retry loop) - also when there is nothing to sample
    from .c05 import agg_blocks
    for b in workers:
        if not b.calls_to(lambda c: path_ends(c["path"], "Chain::set_position")):
            continue
        oks = [x[0] for x in agg_blocks(b, "Result", "Ok") if any(st["k"] == "assign" and st["pl"]["l"] == 0 and not st["pl"]["p"] for st in b.blocks[x[0]]["stmts"])]
        sp_ = [bb for bb, _t in b.calls_to(lambda c: path_ends(c["path"], "Chain::set_position"))]
        # the starting point is searched in a retry loop: what dominates the code behind it is the loop (its header), not the call inside
        loops_ = b.natural_loops()
        sp_anchor = []
        for x in sp_:
            hs = [h for h, body in loops_.items() if x in body]
            sp_anchor.append(min(hs, key=lambda h: len(loops_[h])) if hs else x)
        need = {"Model::math": [bb for bb, _t in b.calls_to(lambda c: path_ends(c["path"], "Model::math"))],
                "Chain::set_position": sp_anchor}
        site = "%s @%s" % (b.path, b.loc())
        early = []
        for o in oks:
            for nm, bbs in need.items():
                if bbs and not any(b.dominates(x, o) for x in bbs):
                    early.append((o, nm))
        key = b.path + ":ok-after-init"
        if not oks:
            continue
        if early:
            R.bad("C13-R3", key, "%s @%s" % (b.path, loc(b.blocks[early[0][0]]["term"].get("span") or b.span)), "the worker can return Ok(()) without having passed %s: a model "
                  "whose density cannot be built, or that has no valid starting point, is reported as a successful (empty) run" % sorted({e_[1] for e_ in early}))
        else:
            R.ok("C13-R3", key, site, "every Ok(()) of the worker is dominated by Model::math and by the set_position of the retry loop (%d returns)" % len(oks))
    # a successful (re)try must leave the remembered error cleared: no path from the Ok outcome of set_position to the
    # loop exit may keep `error = Some(earlier failure)`
    for b in workers:
        for bb, t in b.calls_to(lambda c: path_ends(c["path"], "Chain::set_position")):
            loops = [body for h, body in b.natural_loops().items() if bb in body]
            if not loops:
                continue
            loop = min(loops, key=len)
            res_l = t["dest"]["l"]
            # the Option local that remembers the error
            err_locals = set()
            for bi in loop:
                for st in b.blocks[bi]["stmts"]:
                    if st["k"] == "assign" and st["rv"]["k"] == "agg" and st["rv"].get("variant") == "Some" and not st["pl"]["p"]:
                        v = b.value(st["rv"]["ops"][0])
                        if any(n_[0] == "downcast" and n_[2] == "Err" for n_ in vt_walk_(v)):
                            err_locals.add(st["pl"]["l"])
            # follow moves of the Some(..) temp into the user variable
            changed = True
            while changed:
                changed = False
                for bi in loop:
                    for st in b.blocks[bi]["stmts"]:
                        if st["k"] == "assign" and st["rv"]["k"] == "use" and st["rv"]["op"]["k"] in ("move", "copy") and \
                                st["rv"]["op"]["pl"]["l"] in err_locals and not st["pl"]["p"] and st["pl"]["l"] not in err_locals:
                            err_locals.add(st["pl"]["l"])
                            changed = True
            site = "%s @%s" % (b.path, loc(t["span"]))
            key = b.path + ":retry-clears-error"
            if not err_locals:
                continue
            clear_blocks = set()
            read_blocks = set()
            for bi in range(len(b.blocks)):
                for st in b.blocks[bi]["stmts"]:
                    if st["k"] != "assign":
                        continue
                    if st["pl"]["l"] in err_locals and not st["pl"]["p"]:
                        v = b.rvalue_value(st["rv"])
                        if v[0] == "agg" and str(v[1]).endswith("Option::None"):
                            clear_blocks.add(bi)
                    if st["rv"]["k"] == "discr" and st["rv"]["pl"]["l"] in err_locals and bi not in loop:
                        read_blocks.add(bi)
            # Ok edge of the switch on the result
            ok_targets = []
            for bi in loop:
                tt = b.blocks[bi]["term"]
                if tt["k"] == "switch" and tt.get("enum_place", {}).get("l") == res_l:
                    for a in tt["arms"]:
                        if a["name"] == "Ok":
                            ok_targets.append(a["target"])
                    if not any(a["name"] == "Ok" for a in tt["arms"]) and any(a["name"] == "Err" for a in tt["arms"]):
                        ok_targets.append(tt["otherwise"])
            leak = False
            for ot in ok_targets:
                reach = b.reach_from(ot, avoid=clear_blocks) if ot not in clear_blocks else set()
                if reach & read_blocks:
                    leak = True
            if not ok_targets:
                R.bad("C13-R3", key, site, "cannot find the Ok outcome of set_position in the retry loop")
            elif leak:
                R.bad("C13-R3", key, site, "a successful set_position can leave the retry loop while an earlier failure is still remembered: the chain then reports 'All initialization points failed'")
            else:
                R.ok("C13-R3", key, site, "success path clears the remembered error before leaving the retry loop")
    # a rejected starting point is retried: the Err outcome of set_position stays in the retry loop (a recoverable density error at a proposed
    # starting point must not end the chain); leaving early is legitimate only under an `is_recoverable() == false` test of that error
    for b in workers:
        for bb, t in b.calls_to(lambda c: path_ends(c["path"], "Chain::set_position")):
            loops = [(h, body) for h, body in b.natural_loops().items() if bb in body]
            if not loops:
                continue
            h, loop = min(loops, key=lambda x: len(x[1]))
            res_l = t["dest"]["l"]
            err_targets = []
            for bi in loop:
                tt = b.blocks[bi]["term"]
                if tt["k"] == "switch" and tt.get("enum_place", {}).get("l") == res_l and not tt["enum_place"]["p"]:
                    for a in tt["arms"]:
                        if a["name"] == "Err":
                            err_targets.append(a["target"])
                    if not any(a["name"] == "Err" for a in tt["arms"]) and any(a["name"] == "Ok" for a in tt["arms"]):
                        err_targets.append(tt["otherwise"])
            key = b.path + ":retry-on-rejection"
            site = "%s @%s" % (b.path, loc(t["span"]))
            if not err_targets:
                continue
            escapes = []
            for et in err_targets:
                inside = b.reach_from(et, avoid=[h])
                for x in sorted(inside):
                    if x not in loop or b.blocks[x]["cleanup"]:
                        continue
                    for y in b.succ_map()[x]:
                        if y in loop or b.blocks[y]["cleanup"]:
                            continue
                        # an edge leaving the loop from the rejection path
                        rels = Rl_edge(b, x, y)
                        if any("is_recoverable" in r_ for r_ in rels):
                            continue
                        escapes.append("bb%d->bb%d (%s)" % (x, y, loc(b.blocks[x]["term"].get("span") or t["span"])))
            if escapes:
                R.bad("C13-R3", key, site, "a rejected starting point can end the chain without exhausting the retries and without an is_recoverable() == false "
                      "test of its error: %s" % ", ".join(escapes[:3]))
            else:
                R.ok("C13-R3", key, site, "every rejection of a starting point goes back to the retry loop")
    if not sent:
        R.bad("C13-R3", "worker:send-result", "-", "the worker closure's result is not sent on the results channel")
    R.floor("C13-R3", 2)


# Results that are thrown away on purpose, confirmed by reading (function, what is discarded): one line of reason each
DISCARDS = {
    ("ChainProcess::start", "send"): "worker: results.send(result) fails only when the controller is gone, i.e. another chain already failed and reported",
    ("Sampler::new", "finalize_many"): "chains could not be started: the start error is returned, the clean-up result is secondary",
    ("Sampler::new", "pause"): "controller: pause() of a chain fails only when that chain has finished",
    ("Sampler::new", "resume"): "controller: resume() of a chain fails only when that chain has finished",
    ("Sampler::new", "send<ChainCommand>"): "controller: the same Pause/Resume send written in place (fails only when that chain has finished)",
}


def r6(F, R):
    """No Result is silently dropped (`let _ = fallible()` or a Result left in a `?`-stripped payload)."""
    from .facts import _rvalue_operands
    R.rule("C13-R6", "no error value is thrown away: a local of type Result<..> that is assigned and never read (not matched, not moved, not returned, not passed "
                     "on) exists only at the %d confirmed sites (%s); `let _ = r?` on a nested Result and `let _ = fallible()` drop a failure the caller "
                     "is then told did not happen" % (len(DISCARDS), "; ".join("%s/%s" % k for k in sorted(DISCARDS))))
    n = 0
    seen_keys = set()
    for b in sorted(F.bodies.values(), key=lambda x: x.path):
        if K.is_std_derive(b) or not b.blocks:
            continue
        used = set()

        def op(o):
            if o and o.get("k") in ("copy", "move"):
                used.add(o["pl"]["l"])
                for e in o["pl"]["p"]:
                    if isinstance(e, dict) and "idx" in e:
                        used.add(e["idx"])
        for blk in b.blocks:
            for st in blk["stmts"]:
                if st["k"] == "assign":
                    rv = st["rv"]
                    for o in _rvalue_operands(rv):
                        op(o)
                    if rv["k"] in ("ref", "rawptr", "discr"):
                        used.add(rv["pl"]["l"])
            t = blk["term"]
            if t["k"] == "call":
                for a in t["args"]:
                    op(a)
                if "indirect" in t["callee"]:
                    op(t["callee"]["indirect"])
            elif t["k"] == "switch":
                op(t["discr"])
                if "enum_place" in t:
                    used.add(t["enum_place"]["l"])
            elif t["k"] == "assert":
                op(t["cond"])
        for l, lc in enumerate(b.locals):
            ty = lc.get("ty", "")
            if not ty.startswith("std::result::Result<") or l == 0 or b.is_arg(l) or l in used:
                continue
            ds = b.defs().get(l, [])
            if not ds:
                continue
            d = ds[0]
            # formatting into a String cannot fail (`<String as fmt::Write>` never returns Err): `let _ = write!(line, ..)` drops nothing
            if d[0] == "call" and ty == "std::result::Result<(), std::fmt::Error>" and str(d[3]["callee"].get("self_ty") or "").replace("&mut ", "") in (
                    "std::string::String", "String", "alloc::string::String"):
                continue
            n += 1
            what = d[3]["callee"].get("name") if d[0] == "call" else "value"
            if what == "send" and "SendError<sampler::ChainCommand>" in ty:
                what = "send<ChainCommand>"
            # enclosing named function (closures report their parent)
            fn = b.path
            while "::{closure" in fn:
                fn = fn[:fn.rindex("::{closure")]
            segs = [x for x in strip_generics(fn).split("::") if x]
            short = "::".join(segs[-2:])
            key = "%s:%s" % (short, what)
            site = "%s @%s" % (b.path, loc(d[3].get("span") or b.span))
            if (short, what) in DISCARDS:
                if key not in seen_keys:
                    seen_keys.add(key)
                R.ok("C13-R6", "%s#%d" % (key, n), site, "deliberate: " + DISCARDS[(short, what)])
            else:
                R.bad("C13-R6", key, site, "a %s is dropped without being looked at (%s): a failure at this point is reported as success" % (ty[:80], what))
    R.floor("C13-R6", 3)



def r8(F, R):
    """A storage backend that buffers its output reports the failure of the final write."""
    R.rule("C13-R8", "every ChainStorage whose struct owns a std::io::BufWriter flushes it explicitly in finalize() and propagates the result: bytes left to the "
                     "BufWriter's Drop are written with their I/O error ignored (a full disk at the end of the run would be reported as success)")
    n = 0
    for p_, a in sorted(F.adts.items()):
        if not a.get("variants") or not p_.startswith("storage::"):
            continue
        wf = [f["name"] for f in a["variants"][0]["fields"] if "BufWriter<" in f["ty"]]
        if not wf:
            continue
        fins = [b for b in F.trait_method_impls("ChainStorage", "finalize") if strip_generics(b.parent.get("self_adt") or "") == strip_generics(p_)]
        for b in fins:
            n += 1
            key = "%s:final-flush" % b.path
            site = "%s @%s" % (b.path, b.loc())
            from .c05 import agg_blocks
            oks = [x[0] for x in agg_blocks(b, "Result", "Ok") if x[1]["pl"]["l"] == 0]
            okk = False
            for bb, t in b.calls():
                c = t["callee"]
                if c.get("name") == "flush" and "BufWriter" in str(c.get("self_ty") or c.get("impl_self") or c.get("path")):
                    outs = E.classify(b, t["dest"]["l"]) if not t["dest"]["p"] else []
                    if any(o.kind in ("propagated", "returned") for o in outs) and oks and all(b.dominates(bb, o_) for o_ in oks):
                        okk = True
            if okk:
                R.ok("C13-R8", key, site, "finalize flushes self.%s and propagates the result" % wf[0])
            else:
                R.bad("C13-R8", key, site, "finalize does not flush the BufWriter (field %s) with its result propagated on every successful return: the last buffered rows "
                      "are written by Drop, which swallows the I/O error" % wf[0])
    R.floor("C13-R8", 1)



def _zero_divisions(F, in_scope):
    """Divisions that panic when the divisor is zero: integer `/` `%` with a divisor that is not a constant (MIR emits a DivisionByZero /
    RemainderByZero assertion for exactly those), and `Duration / u32` (`<Duration as Div<u32>>::div` panics on 0)."""
    out = []
    for b in sorted(F.bodies.values(), key=lambda x: x.path):
        if not in_scope(b) or K.is_std_derive(b):
            continue
        for bi, blk in enumerate(b.blocks):
            if blk["cleanup"]:
                continue
            t = blk["term"]

            def guarded(div):
                """`div` is known to be non-zero here: the block is only reached where `div > 0` / `div != 0` / `div >= 1` was established."""
                from . import rel as Rl
                from .facts import vt_str as _s
                for (o, l, r, _sw) in Rl.edge_relations(b, bi):
                    if r is None:
                        continue
                    for (op, x, y) in ((o, l, r), (Rl.FLIP.get(o), r, l)):
                        if _s(x) == _s(div) and y[0] == "const" and y[2] is not None:
                            try:
                                c_ = float(y[2])
                            except ValueError:
                                continue
                            if (op == "Gt" and c_ >= 0) or (op == "Ne" and c_ == 0) or (op == "Ge" and c_ >= 1):
                                return True
                return False
            if t["k"] == "assert" and str(t.get("msg", "")).startswith(("DivisionByZero", "RemainderByZero")):
                cv = b.value(t["cond"])
                div = cv[2] if cv[0] == "bin" and cv[1] == "Eq" else None
                if div is None or not guarded(div):
                    out.append((b, bi, t, str(t["msg"]).split("(")[0]))
            if t["k"] == "call":
                c = t["callee"]
                p_ = strip_generics(c.get("path", ""))
                st = str(c.get("self_ty") or "")
                if (p_.endswith(("Div::div", "DivAssign::div_assign", "Rem::rem")) and st.endswith("time::Duration")) and len(t["args"]) == 2 and t["args"][1]["k"] != "const" and not guarded(b.value(t["args"][1])):
                    out.append((b, bi, t, "Duration / integer"))
    return out


ERR_TYPES = ("anyhow::Error", "NutsError", "std::io::Error", "dyn std::error::Error", "StorageError", "ArrowError", "LogpError")
ACCUMULATE = ("get_or_insert", "get_or_insert_with", "insert", "replace", "push", "push_back", "extend", "append", "or_insert", "or_insert_with")


def _unread_error_accumulators(F, in_scope):
    """Locals that collect error values (Option<Error>, Vec<Error>, ..) and are written but never read again."""
    out = []
    for b in sorted(F.bodies.values(), key=lambda x: x.path):
        if not in_scope(b) or K.is_std_derive(b) or not b.blocks:
            continue
        for l, lc in enumerate(b.locals):
            ty = lc["ty"]
            if l == 0 or b.is_arg(l) or not b.local_name(l):
                continue
            if not (ty.startswith(("std::option::Option<", "std::vec::Vec<", "std::collections::VecDeque<")) and any(e in ty for e in ERR_TYPES)) or ty.startswith("std::option::Option<&"):
                continue
            writes, reads = 0, 0
            mut_tmps = set()
            for bi, blk in enumerate(b.blocks):
                if blk["cleanup"]:
                    continue
                for st in blk["stmts"]:
                    if st["k"] != "assign":
                        continue
                    rv = st["rv"]
                    if st["pl"]["l"] == l:
                        if not (rv["k"] == "agg" and rv.get("variant") == "None") and not (rv["k"] == "use" and rv["op"]["k"] == "const"):
                            writes += 1 if rv["k"] == "agg" else 0
                        continue
                    if rv["k"] in ("ref", "rawptr") and rv["pl"]["l"] == l:
                        if rv.get("bk") in ("mut", "Mut") and not rv["pl"]["p"]:
                            mut_tmps.add(st["pl"]["l"])
                        else:
                            reads += 1
                    elif rv["k"] == "discr" and rv["pl"]["l"] == l:
                        reads += 1
                    else:
                        for k_ in ("op", "a", "b"):
                            o = rv.get(k_)
                            if isinstance(o, dict) and o.get("k") in ("copy", "move") and o["pl"]["l"] == l:
                                reads += 1
                        for o in rv.get("ops", []) or []:
                            if o.get("k") in ("copy", "move") and o["pl"]["l"] == l:
                                reads += 1
                t = blk["term"]
                if t["k"] == "call":
                    nm = t["callee"].get("name")
                    for i, a in enumerate(t["args"]):
                        if a["k"] in ("copy", "move") and a["pl"]["l"] == l:
                            reads += 1
                        if a["k"] in ("copy", "move") and a["pl"]["l"] in mut_tmps and not a["pl"]["p"]:
                            if i == 0 and nm in ACCUMULATE:
                                writes += 1
                            else:
                                reads += 1
                if t["k"] == "switch" and t["discr"]["k"] in ("copy", "move") and t["discr"]["pl"]["l"] == l:
                    reads += 1
            if writes and not reads:
                out.append((b, l, b.local_name(l), ty, writes))
    return out


def r10(F, R):
    R.rule("C13-R10", "collected errors are looked at: a local that accumulates error values (Option<Error> / Vec<Error> filled with get_or_insert / push / "
                      "insert / Some(e)) is read again - returned, matched or handed on - before it goes out of scope; an accumulator that is only written "
                      "swallows every failure it was given")
    hits = _unread_error_accumulators(F, lambda b: True)
    for (b, l, name, ty, w) in hits:
        R.bad("C13-R10", "%s:%s" % (b.path, name), "%s @%s" % (b.path, b.loc()), "`%s: %s` is written %d time(s) and never read: the errors stored in it are dropped silently" % (name, ty[:80], w))
    if not hits:
        R.ok("C13-R10", "scan", "library crates", "no write-only error accumulator in %d bodies" % len(F.bodies))
    P = K.positive_facts()
    ph = {b.path.split("::")[-1] for (b, _l, _n, _t, _w) in _unread_error_accumulators(P, lambda b: True)}
    if "c13_collected_error_dropped" in ph and "c13_collected_error_returned" not in ph:
        R.ok("C13-R10", "positive-control", "fixtures/positive", "the planted write-only accumulator is reported, the returned one is not")
    else:
        R.bad("C13-R10", "positive-control", "fixtures/positive", "matcher failed on the planted accumulators: %s" % sorted(ph))


def _float_to_int_unwraps(F, in_scope):
    out = []
    for b in sorted(F.bodies.values(), key=lambda x: x.path):
        if K.is_std_derive(b) or not b.blocks or not in_scope(b):
            continue
        for bb, t in b.calls():
            c = t["callee"]
            p_ = strip_generics(c.get("path", ""))
            if not (p_.endswith(("Option::unwrap", "Option::expect")) and t["args"]):
                continue
            v = b.value(t["args"][0])
            if not (v[0] == "call" and str(v[1]).split("::")[-1] in ("to_u64", "to_usize", "to_i64", "to_u32", "to_i32", "to_isize", "to_u8", "to_u16") and v[2]):
                continue
            src = v[2][0]
            sty = str((v[3] or {}).get("self_ty") or "")
            if "f64" not in sty and "f32" not in sty and not any(n_[0] == "call" and "f64" in str(n_[1]) and str(n_[1]).split("::")[-1] in ("floor", "ceil", "round", "log2", "trunc") for n_ in vt_walk_(src)):
                continue
            bounded = any(n_[0] == "call" and "f64" in str(n_[1]) and str(n_[1]).split("::")[-1] == "log2" and n_[2] and any(m_[0] == "cast" for m_ in vt_walk_(n_[2][0])) for n_ in vt_walk_(src))
            out.append((b, t, v, src, bounded))
    return out


def r11(F, R):
    R.rule("C13-R11", "no float-to-integer conversion that can panic in the sampling path: `x.to_u64().unwrap()` (ToPrimitive / NumCast / TryFrom on a float) returns "
                      "None for NaN, negative and out-of-range values; it is accepted only where the operand is bounded by construction - floor / ceil of the log2 "
                      "of a value that went through an integer type. A ratio such as target_time / step_size is unbounded: recoverable density errors drive the "
                      "adapted step size towards 0, and the chain worker panics instead of recording the divergences")
    from .facts import vt_str as _s
    hits = _float_to_int_unwraps(F, lambda b: not b.path.startswith(("storage::", "<storage::")))
    for n, (b, t, v, src, bounded) in enumerate(hits, 1):
        site = "%s @%s" % (b.path, loc(t["span"]))
        key = "%s:float-to-int#%d" % (b.path, n)
        if bounded:
            R.ok("C13-R11", key, site, "operand is floor/ceil(log2(<integer as f64>)): at most 64 and never NaN (that the integer is >= 1 - a positive target time - is a value question, not decided)")
        else:
            R.bad("C13-R11", key, site, "`%s(..).unwrap()` of %s: the operand is not bounded (NaN / negative / > u64::MAX give None and the worker panics)" % (
                str(v[1]).split("::")[-1], _s(src)[:100]))
    if not hits:
        R.ok("C13-R11", "scan", "library crates", "no unwrapped float-to-integer conversion in the sampling path")
    ph = {b.path.split("::")[-1]: bounded for (b, _t, _v, _s2, bounded) in _float_to_int_unwraps(K.positive_facts(), lambda b: True)}
    if ph.get("c13_ratio_to_u64_unwrap") is False and ph.get("c13_log2_to_u64_unwrap") is True and "c13_ratio_to_u64_checked" not in ph:
        R.ok("C13-R11", "positive-control", "fixtures/positive", "the planted unbounded conversion is reported, the log2-of-integer one is accepted, the checked one is not matched")
    else:
        R.bad("C13-R11", "positive-control", "fixtures/positive", "matcher fails on the planted conversions: %s" % ph)


def r12(F, R):
    R.rule("C13-R12", "no way to stop the sampler that forgets a failed chain: the chain workers report their failure on the `results` channel of the Sampler; "
                      "every method that consumes the Sampler and hands back the trace (abort, and wait_timeout through it) reads what is left on that channel "
                      "and carries an error it finds into its result - a method that joins the controller and returns only the controller's result reports "
                      "success for a run whose chains all failed")
    ad = None
    for p_, a in F.adts.items():
        if p_ == "sampler::Sampler":
            ad = a
    if ad is None:
        R.missing("C13-R12", "sampler::Sampler")
        return
    res_fields = [f["name"] for f in ad["variants"][0]["fields"] if "Receiver<std::result::Result<()" in f["ty"] or ("Receiver<" in f["ty"] and "anyhow::Error" in f["ty"] and "SamplerResponse" not in f["ty"])]
    if len(res_fields) != 1:
        R.missing("C13-R12", "the results receiver field of Sampler (found %s)" % res_fields)
        return
    rf = res_fields[0]
    n = 0
    for b in F.inherent_methods("sampler::Sampler", "abort"):
        n += 1
        site = "%s @%s" % (b.path, b.loc())
        reads = []
        for bb, t in b.calls():
            p_ = strip_generics(t["callee"].get("path", ""))
            if p_.endswith(("Receiver::try_iter", "Receiver::try_recv", "Receiver::recv", "Receiver::recv_timeout", "Receiver::iter")) and t["args"]:
                v = b.value(t["args"][0])
                if any(n_[0] == "field" and n_[2] == rf for n_ in vt_walk_(v)):
                    reads.append((bb, t))
        if not reads:
            R.bad("C13-R12", "Sampler::abort:reads-results", site, "abort() never reads self.%s: the error a chain reported there is dropped, and abort() returns Ok((None, trace)) "
                  "although chains failed" % rf)
            continue
        # what was read reaches the returned value
        flows = False
        for bb, t in reads:
            sl = b.slice([{"k": "copy", "pl": {"l": 0, "p": [], "ty": ""}}], control=False)
            if t["dest"]["l"] in sl["locals"]:
                flows = True
        if flows:
            R.ok("C13-R12", "Sampler::abort:reads-results", site, "abort() drains self.%s and what it finds flows into the returned value" % rf)
        else:
            R.bad("C13-R12", "Sampler::abort:reads-results", site, "abort() reads self.%s but the result does not depend on what it read" % rf)
    if n == 0:
        R.missing("C13-R12", "Sampler::abort")


def r9(F, R):
    R.rule("C13-R9", "no division that panics on zero in library code: an integer `/` or `%` whose divisor is not a constant, or `Duration / n`, panics when the "
                     "divisor is 0 - and counts taken from a draw (steps, draws, chains) are 0 for a trajectory that fails on its first step, for an empty run, "
                     "for dimension 0. Such a panic in the chain worker poisons the trace and progress locks and re-surfaces as a panic of the calling thread "
                     "instead of an Err")
    hits = _zero_divisions(F, lambda b: not b.path.startswith(("storage::csv::tests", "tests::")))
    for (b, bi, t, what) in hits:
        R.bad("C13-R9", "%s:%s" % (b.path, what.split(" ")[0]), "%s @%s" % (b.path, loc(t["span"])), "%s with a divisor that can be zero at run time (use checked_div / a guard)" % what)
    if not hits:
        R.ok("C13-R9", "scan", "library crates", "%d bodies: no integer or Duration division with a non-constant divisor" % len(F.bodies))
    P = K.positive_facts()
    ph = {b.path.split("::")[-1] for (b, _bi, _t, _w) in _zero_divisions(P, lambda b: True)}
    if {"c13_int_div", "c13_duration_div"} <= ph and "c13_int_div_guarded" not in ph:
        R.ok("C13-R9", "positive-control", "fixtures/positive", "the planted integer and Duration divisions are reported")
    else:
        R.bad("C13-R9", "positive-control", "fixtures/positive", "matcher misses planted divisions: found %s" % sorted(ph))



STRING_BYTE_OPS = {"truncate", "split_off", "insert", "insert_str", "remove", "drain", "replace_range"}
STR_BYTE_OPS = {"split_at", "split_at_mut", "split_at_checked"}
BOUNDARY_SOURCES = {"is_char_boundary", "char_indices", "floor_char_boundary", "ceil_char_boundary", "find", "rfind", "len_utf8", "match_indices", "rmatch_indices"}


def _byte_offset_string_ops(F, in_scope):
    hits = []
    for b in sorted(F.bodies.values(), key=lambda x: x.path):
        if not in_scope(b) or K.is_std_derive(b):
            continue
        names = {t["callee"].get("name") for _bb, t in b.calls()}
        guarded = bool(names & BOUNDARY_SOURCES)
        for bb, t in b.calls():
            c = t["callee"]
            p = strip_generics(c.get("path", ""))
            nm = c.get("name")
            what = None
            if nm in STRING_BYTE_OPS and p.endswith("string::String::" + nm):
                what = "String::%s" % nm
            elif nm in STR_BYTE_OPS and "str" in p and "slice" not in p:
                what = "str::%s" % nm
            elif nm in ("index", "index_mut") and c.get("self_ty") == "str" and not any("RangeFull" in str(g) for g in c.get("gargs") or []):
                what = "str[range]"
            if what is None or (t.get("span") or {}).get("exp"):
                continue
            # a literal offset 0 is always a boundary
            offs = [b.value(a) for a in t["args"][1:2]]
            if offs and offs[0][0] == "const" and str(offs[0][2]) in ("0", "0_usize"):
                continue
            hits.append((b, bb, t, what, guarded))
    return hits


def r13(F, R):
    R.rule("C13-R13", "no byte offset into a string that can fall inside a character: String::truncate / split_off / insert / remove / drain / replace_range, "
                      "str::split_at and `&s[a..b]` panic when the offset is not on a UTF-8 character boundary; texts that reach the library from outside (the "
                      "message of a density error, names, paths) contain whatever the model puts there. A function that uses such an operation also derives "
                      "the offset from the string (is_char_boundary, char_indices, find, floor_char_boundary)")
    hits = _byte_offset_string_ops(F, lambda b: not ("::tests::" in b.path or b.path.startswith("tests::")))
    bad = [h for h in hits if not h[4]]
    for (b, bb, t, what, _g) in bad:
        R.bad("C13-R13", "%s:%s" % (b.path, what), "%s @%s" % (b.path, loc(t["span"])), "%s at a byte offset that is not derived from the string's character boundaries: "
              "panics (in the chain worker: poisons the locks and surfaces as a panic of the caller) for a multi-byte character at that offset" % what)
    if not bad:
        R.ok("C13-R13", "scan", "library crates", "%d bodies, %d byte-offset string operation(s), all with a boundary source in the same function" % (len(F.bodies), len(hits)))
    P = K.positive_facts()
    ph = {b.path.split("::")[-1] for (b, _bb, _t, _w, g) in _byte_offset_string_ops(P, lambda b: True) if not g}
    if {"c13_string_truncate", "c13_str_slice"} <= ph and "c13_string_truncate_on_boundary" not in ph:
        R.ok("C13-R13", "positive-control", "fixtures/positive", "the planted truncate / slice are reported, the boundary-aware one is not")
    else:
        R.bad("C13-R13", "positive-control", "fixtures/positive", "matcher misses planted string operations: found %s" % sorted(ph))




PANICKING_EXTRACTORS = {"unwrap", "expect", "unwrap_unchecked", "unwrap_err", "expect_err"}


def _fault_record_unwraps(F, in_scope, record="DivergenceInfo"):
    """Calls of Option/Result::unwrap/expect whose receiver is derived (data flow, flow-insensitive backward slice) from a field of a
    local of type `record`. Returns [(body, bb, term, field names, guarded)]; guarded = the call is control-dependent on a test that reads
    one of the same fields (is_some / match)."""
    hits = []
    for b in sorted(F.bodies.values(), key=lambda x: x.path):
        if not in_scope(b) or K.is_std_derive(b):
            continue
        for bb, t in b.calls():
            c = t["callee"]
            nm = c.get("name")
            p = strip_generics(c.get("path", ""))
            if nm not in PANICKING_EXTRACTORS or not ("option::Option::" in p or "result::Result::" in p):
                continue
            if not t["args"]:
                continue
            sl = b.slice(t["args"][:1], control=False)
            flds = set()
            for (l, names) in sl["roots"]:
                try:
                    ty = b.local_ty(l)
                except Exception:
                    continue
                if record in ty and names:
                    flds.add(names[0])
            for (l, names) in sl["args"]:
                if names and record in b.local_ty(l):
                    flds.add(names[0])
            if not flds:
                continue
            g = b.slice([], control=True, start_bb=bb)
            hits.append((b, bb, t, sorted(flds), bool(set(flds) & set(g["fields"]))))
    return hits


def r15(F, R):
    R.rule("C13-R15", "no panicking extraction from the record of a density fault: `DivergenceInfo` is what a fault leaves behind, and which of its optional fields are "
                      "filled depends on the kind of fault (an energy divergence has an end point and an energy error, a recoverable density error has neither). "
                      "`unwrap` / `expect` on a value derived from one of its fields, not guarded by a test of the same field, panics for the kinds that leave it "
                      "empty - in the chain worker, where it poisons the locks and reaches the caller as a panic instead of a divergence or an Err")
    hits = _fault_record_unwraps(F, lambda b: not ("::tests::" in b.path or b.path.startswith("tests::")))
    bad = [h for h in hits if not h[4]]
    for (b, bb, t, flds, _g) in bad:
        R.bad("C13-R15", "%s:%s:%s" % (b.path, t["callee"].get("name"), "+".join(flds)), "%s @%s" % (b.path, loc(t["span"])),
              "%s() of a value derived from DivergenceInfo.%s without a test of that field: a fault that leaves the field empty becomes a panic of the chain worker"
              % (t["callee"].get("name"), "/".join(flds)))
    if not bad:
        R.ok("C13-R15", "scan", "library crates", "%d bodies: %d unwrap/expect of a DivergenceInfo field, all guarded by a test of the same field" % (len(F.bodies), len(hits)))
    P = K.positive_facts()
    ph = {b.path.split("::{")[0].split("::")[-1]: g for (b, _bb, _t, _f, g) in _fault_record_unwraps(P, lambda b: True)}
    if ph.get("c13_fault_record_expect") is False and ph.get("c13_fault_record_unwrap") is False and ph.get("c13_fault_record_guarded") is True \
            and "c13_fault_record_total" not in ph:
        R.ok("C13-R15", "positive-control", "fixtures/positive", "the planted expect (in a closure) and unwrap are reported, the guarded unwrap is recognised, unwrap_or is not matched")
    else:
        R.bad("C13-R15", "positive-control", "fixtures/positive", "matcher disagrees with the planted constructs: %s" % sorted(ph.items()))


def _carries_divergence(F, b, rv):
    """Is the payload of this `Err(..)` a variant of a workspace enum whose field is the DivergenceInfo itself (a tree-building outcome, not an error)?"""
    ops = rv.get("ops") or []
    if not ops:
        return False
    pl = ops[0].get("pl")
    if not pl or pl["p"]:
        return False
    for blk in b.blocks:
        for st in blk["stmts"]:
            if st["k"] == "assign" and st["pl"]["l"] == pl["l"] and not st["pl"]["p"] and st["rv"]["k"] == "agg" and st["rv"].get("ak") == "adt":
                a = F.adts.get(st["rv"].get("adt")) or F.adts.get(strip_generics(st["rv"].get("adt") or ""))
                if not a:
                    continue
                for v in a.get("variants") or []:
                    if v.get("name") == st["rv"].get("variant") and any("DivergenceInfo" in str(f.get("ty")) for f in v.get("fields") or []):
                        return True
    return False

def r14(F, R, rid="C13-R14"):
    R.rule(rid, "a divergence is not an error: wherever a LeapfrogResult is matched (tree extension, MCLMC kernel, step-size search), no `Err(..)` of the function's "
                "own making is reachable from the Divergence arm before the next leapfrog - a divergence, including one caused by a recoverable density error, "
                "ends the trajectory or the search, never the chain (errors propagated with `?` from other fallible calls on that path are theirs, not this arm's)")
    n = 0
    for b in sorted(F.bodies.values(), key=lambda x: x.path):
        sws = [(bi, blk["term"]) for bi, blk in enumerate(b.blocks) if not blk["cleanup"] and blk["term"]["k"] == "switch"
               and path_ends(blk["term"].get("enum_adt") or "", "hamiltonian::LeapfrogResult") and any(a.get("name") == "Divergence" for a in blk["term"]["arms"])]
        if not sws:
            continue
        leap = [bb for bb, t in b.calls() if t["callee"].get("name") == "leapfrog"]
        own_errs = set()
        for bi, blk in enumerate(b.blocks):
            if blk["cleanup"]:
                continue
            for st in blk["stmts"]:
                if st["k"] == "assign" and st["pl"]["l"] == 0 and not st["pl"]["p"] and st["rv"]["k"] == "agg" and st["rv"].get("variant") == "Err":
                    if _carries_divergence(F, b, st["rv"]):
                        continue        # `Err(Outcome::Diverging(info))` of an internal outcome type hands the divergence on, it is not a failure
                    own_errs.add(bi)
        for (bi, t) in sws:
            tgt = [a["target"] for a in t["arms"] if a.get("name") == "Divergence"][0]
            reach = b.reach_from(tgt, avoid=leap) | {tgt}
            hit = sorted(own_errs & reach)
            key = "%s:divergence-arm#%d" % (b.path, n)
            n += 1
            site = "%s @%s" % (b.path, b.loc())
            if hit:
                sp = [st["span"] for st in b.blocks[hit[0]]["stmts"] if st.get("span")]
                R.bad(rid, "%s:divergence-arm" % b.path, "%s @%s" % (b.path, loc(sp[-1])) if sp else site,
                      "the Divergence arm leads to an `Err(..)` built in this function: a divergence (e.g. a recoverable density error in the trial step of the "
                      "step-size search, which also runs in mid-warmup) terminates the chain")
            else:
                R.ok(rid, key, site, "no own Err reachable from the Divergence arm (%d own Err site(s) in the function)" % len(own_errs))
    R.floor(rid, 4)

def run(F, R, config="all"):
    feats = (F.crates and [c for c in F.crates if c["name"] == "nuts_rs"][0]["features"]) or []
    if "parallel" not in feats:
        R.info("C13", "feature `parallel` not compiled in this configuration: worker/controller rules skipped")
        return
    r1(F, R)
    r2(F, R)
    r3(F, R)
    from . import c14
    c14.record_path_panics(F, R, "C13-R4")
    # the same error discipline on the draw path (shared with C05-R1): an unrecoverable density error raised anywhere below
    # Chain::draw / set_position must reach the worker's `?`, otherwise the sampler reports success or panics
    from . import c05
    c05.r1(F, R, rid="C13-R5")
    r6(F, R)
    r8(F, R)
    r9(F, R)
    r10(F, R)
    r11(F, R)
    r12(F, R)
    r13(F, R)
    r14(F, R)
    r15(F, R)
    # a panic in the chain worker is not an Err: the MCLMC retry bookkeeping must cover its step budget or `assert!(steps_taken >= num_base_steps)` fires
    from . import c18
    K.borrow_rule(R, lambda sub: c18.r4(F, sub), "C13-R7", "recoverable density errors inside an MCLMC trajectory are retried with a smaller step without ever tripping the "
                  "kernel's step-count assertion (C18-R4 analysis of the retry stack)", only_rules={"C18-R4"})
    R.assume("user-supplied Math/Model implementations may fail at any call; panics inside them are out of scope")

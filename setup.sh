#!/bin/sh
# Build the extractor driver and warm the dependency cache (offline).
set -e
cd "$(dirname "$0")"
export CARGO_NET_OFFLINE=true
python3 - <<'PY'
import sys
sys.path.insert(0, '.')
from rules import extract as X
X.ensure_driver()
try:
    d, m = X.extract('/repo', 'all')
    print('facts:', d)
except X.BuildFailed as e:
    print(e.log[-2000:])
    print('warning: /repo does not build with --all-features right now')
PY
